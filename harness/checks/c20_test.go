package checks

import (
	"context"
	"errors"
	"fmt"
	"hash/fnv"
	"runtime"
	"sort"
	"strings"
	"sync"
	"sync/atomic"
	"testing"
	"time"

	libshare "github.com/celestiaorg/go-square/v4/share"
	"github.com/celestiaorg/rsmt2d"
	logging "github.com/ipfs/go-log/v2"

	"github.com/celestiaorg/celestia-node/blob"
	"github.com/celestiaorg/celestia-node/header"
	"github.com/celestiaorg/celestia-node/share/shwap"
	"github.com/celestiaorg/celestia-node/zz_verif/vkit"
)

// C20 — blob subscriptions deliver every block once, in order, with the right blobs.
//
// Harness: the real blob.Service. Its header-subscription function hands out one unbuffered
// channel per subscription (as nodebuilder/header.Service.Subscribe does) that a feeder goroutine
// fills with ExtendedHeaders of consecutive heights; its shwap.Getter / header getter serve real
// blocks (c20_blocks_test.go) through a FAILURE SCRIPT per (subscription, height, attempt).
// Consumers are prompt, slow (one response per 2 / 3 headers) or stalled. A trigger — subscriber
// cancel, Service.Stop, feed close — is injected at a chosen logical step index of the run (every
// index of small base scenarios is swept), or after k attempts of a retrieval that fails forever.
//
// Oracles (exactly the statement):
//   - the i-th response of a subscription is for the i-th header fed, with exactly the blobs the
//     block holds for the namespace (namespace, data, version, signer, commitment, index);
//     consequently no gap, duplicate, reordering, and a height that failed k times is still there;
//   - at closure at most the one header being processed is missing (responses ≥ headers taken − 1);
//   - the channel closes only after an injected cause: cancel / stop / feed close (logical
//     timestamps), or overflow = some header was taken while ≥ 16 responses were unread;
//   - it does close after each cause: a header must never be processed (getter called) while 16
//     responses sit unread; after cancel / stop / feed close at most c20StepBound further retrieval
//     attempts of that subscription (legitimate: ≤ 1 per header still fed) — the step bound for a
//     spinning producer — and a producer that is blocked is judged by vkit.WaitStable.
//
// No wall-clock verdict: time only decides when a run is parked for the final stable-state check.

const (
	c20Buf       = 16   // capacity of the response channel (blob/service.go)
	c20StepBound = 1000 // retrieval attempts tolerated after a closing cause was injected
)

type c20CtxKey struct{}

type c20 struct {
	run  *vkit.Run
	pool *c20Pool
	nrun atomic.Int64
}

type c20SubParams struct {
	NS       int              `json:"ns"`       // index into pool.all
	Consumer string           `json:"consumer"` // prompt | slow2 | slow3 | stalled
	Script   map[int][]string `json:"script"`   // header index → outcomes of the failing attempts (then success)
}

type c20Params struct {
	Class       string         `json:"class"`
	N           int            `json:"headers"`
	H0          uint64         `json:"first_height"`
	Off         int            `json:"block_offset"`
	Subs        []c20SubParams `json:"subs"`
	TrigMode    string         `json:"trigger_mode"` // none | step | forever
	TrigKind    string         `json:"trigger_kind"` // cancel | stop | feedclose
	TrigSub     int            `json:"trigger_sub"`
	TrigAt      int64          `json:"trigger_step"`
	ForeverSub  int            `json:"forever_sub"`
	ForeverIdx  int            `json:"forever_idx"`
	ForeverKind string         `json:"forever_kind"` // spin | block
	TrigAfter   int            `json:"trigger_after_attempts"`
	Final       string         `json:"final"` // cancel | feedclose | stop | mixed : injected once a subscription is idle
}

type c20Sub struct {
	subscribedTimes int
	r               *c20Run
	i               int
	p               c20SubParams
	ns              libshare.Namespace
	key             string
	ctx             context.Context
	cancel          context.CancelFunc
	feed            chan *header.ExtendedHeader
	closeReq        chan struct{}
	closeOne        sync.Once
	closedCh        chan struct{} // closed when the consumer observed the end of the stream
	drainCh         chan struct{}
	drainOne        sync.Once
	permit          chan struct{}

	// below: guarded by r.mu
	out          <-chan *blob.SubscriptionResponse
	attempts     map[int]int
	failures     map[int]int
	notFound     map[int]bool
	cur          string
	curIdx       int
	inGetter     bool
	taken        int
	R            int
	fedAll       bool
	finalDone    bool
	broken       bool
	cancelAt     int64
	closeReqAt   int64
	feedClosedAt int64
	closedAt     int64
	ovfCand      map[int]bool
	ovfTaken     bool
	postTrig     int
	boundHit     bool
	hard         chan struct{}
}

type c20Run struct {
	c       *c20
	id      int64
	p       c20Params
	svc     *blob.Service
	headers []*header.ExtendedHeader
	blocks  []*c20Block
	byH     map[uint64]int
	subs    []*c20Sub
	wg      sync.WaitGroup
	allDone chan struct{}
	park    chan struct{}
	parkOne sync.Once

	mu        sync.Mutex
	clock     int64
	log       []string
	ilv       uint64
	trigFired bool
	stopAt    int64
	finalStop bool
	phase     string
	hang      bool
}

func (s *c20Sub) setDrain() { s.drainOne.Do(func() { close(s.drainCh) }) }

func (r *c20Run) logLocked(s *c20Sub, kind string, idx int) {
	si := -1
	if s != nil {
		si = s.i
	}
	e := fmt.Sprintf("%d:s%d:%s:%d", r.clock, si, kind, idx)
	if len(r.log) >= 160 {
		r.log = r.log[1:]
	}
	r.log = append(r.log, e)
	h := fnv.New64a()
	fmt.Fprintf(h, "%x|%d|%s", r.ilv, si, kind)
	r.ilv = h.Sum64()
}

// ev is one logical step of the run; the primary trigger fires at its step index.
func (r *c20Run) ev(s *c20Sub, kind string, idx int) {
	r.mu.Lock()
	r.clock++
	r.logLocked(s, kind, idx)
	fire := r.p.TrigMode == "step" && !r.trigFired && r.clock >= r.p.TrigAt
	if fire {
		r.trigFired = true
	}
	r.mu.Unlock()
	if fire {
		r.inject(r.p.TrigKind, r.p.TrigSub, "primary")
	}
}

func (r *c20Run) phaseLocked(s *c20Sub) string {
	switch {
	case s.out == nil:
		return "before-subscribe"
	case s.closedAt > 0:
		return "closed"
	case s.inGetter:
		return "in-retrieval/" + s.cur
	case s.fedAll && s.R == r.p.N:
		return "idle-all-delivered"
	case len(s.out) > 0:
		return "between/unread"
	default:
		return "between"
	}
}

// inject records the cause (logical timestamp first), then performs it.
func (r *c20Run) inject(kind string, target int, why string) {
	r.mu.Lock()
	r.clock++
	ts := r.clock
	var s *c20Sub
	phase := ""
	if kind == "stop" {
		if r.stopAt == 0 {
			r.stopAt = ts
		}
		var ph []string
		for _, x := range r.subs {
			ph = append(ph, r.phaseLocked(x))
		}
		sort.Strings(ph)
		phase = strings.Join(ph, ",")
	} else {
		s = r.subs[target]
		phase = r.phaseLocked(s) + "/" + s.p.Consumer
		if kind == "cancel" && s.cancelAt == 0 {
			s.cancelAt = ts
		}
		if kind == "feedclose" && s.closeReqAt == 0 {
			s.closeReqAt = ts
		}
	}
	if why == "primary" {
		r.phase = phase
	}
	r.logLocked(s, "inject-"+kind, int(ts))
	r.mu.Unlock()
	r.c.run.Count("trigger/"+why+"/"+kind, 1)
	r.c.run.SetAdd("trigger_phases", kind+"@"+phase)
	switch kind {
	case "cancel":
		s.setDrain()
		s.cancel()
	case "feedclose":
		s.setDrain()
		s.closeOne.Do(func() { close(s.closeReq) })
	case "stop":
		for _, x := range r.subs {
			x.setDrain()
		}
		_ = r.svc.Stop(context.Background())
	}
}

func (r *c20Run) witness(extra map[string]any) map[string]any {
	r.mu.Lock()
	defer r.mu.Unlock()
	w := map[string]any{"seed": vkit.Seed(), "run": r.id, "params": r.p, "last_events(step:sub:kind:idx)": append([]string{}, r.log...)}
	var st []map[string]any
	for _, s := range r.subs {
		st = append(st, map[string]any{"sub": s.i, "namespace": fmt.Sprintf("%x", s.ns.ID()[18:]), "consumer": s.p.Consumer, "headers_taken": s.taken,
			"responses_received": s.R, "cancel_at": s.cancelAt, "feed_close_at": s.feedClosedAt, "closed_at": s.closedAt,
			"retrieval_attempts_after_cause": s.postTrig, "in_retrieval": s.inGetter, "unread": c20Len(s.out)})
	}
	w["subs"] = st
	w["stop_at"] = r.stopAt
	for k, v := range extra {
		w[k] = v
	}
	return w
}

func c20Len(ch <-chan *blob.SubscriptionResponse) int {
	if ch == nil {
		return -1
	}
	return len(ch)
}

// c20BlobStacks returns the goroutines of a dump that run blob-service code.
func c20BlobStacks(dump string) []string {
	var out []string
	for _, g := range strings.Split(dump, "\n\n") {
		if strings.Contains(g, "celestia-node/blob.") {
			if len(g) > 1800 {
				g = g[:1800] + "…"
			}
			out = append(out, g)
			if len(out) >= 4 {
				break
			}
		}
	}
	return out
}

// c20ProducerStacks picks, from a dump taken inside a getter call, the calling goroutine and the
// goroutine that created it (the subscription's producer waiting in getAll).
func c20ProducerStacks(dump string) []string {
	gs := strings.Split(dump, "\n\n")
	if len(gs) == 0 {
		return nil
	}
	out := []string{gs[0]}
	if i := strings.LastIndex(gs[0], " in goroutine "); i >= 0 {
		id := strings.TrimSpace(strings.SplitN(gs[0][i+len(" in goroutine "):], "\n", 2)[0])
		for _, g := range gs[1:] {
			if strings.HasPrefix(g, "goroutine "+id+" ") {
				out = append(out, g)
			}
		}
	}
	return out
}

// c20BlobAsleep reports whether the dump has a goroutine of the blob service in an uninterruptible
// time.Sleep.
func c20BlobAsleep(dump string) bool {
	for _, g := range strings.Split(dump, "\n\n") {
		if strings.Contains(g, "[sleep") && strings.Contains(g, "celestia-node/blob.") {
			return true
		}
	}
	return false
}

func c20Dump() string {
	buf := make([]byte, 4<<20)
	return string(buf[:runtime.Stack(buf, true)])
}

// ---------------------------------------------------------------------------------------------
// collaborators: header subscription, header getter, share getter

func (r *c20Run) headerSub(ctx context.Context) (<-chan *header.ExtendedHeader, error) {
	s, _ := ctx.Value(c20CtxKey{}).(*c20Sub)
	if s == nil {
		return nil, errors.New("c20: subscription context without identity")
	}
	r.mu.Lock()
	s.subscribedTimes++
	again := s.subscribedTimes > 1
	r.mu.Unlock()
	if again {
		// the service asked for a second header subscription for the same blob subscription (e.g. after
		// the first feed closed): it gets a feed that never delivers; whether the stream ends is judged
		// by the close-cause oracle as usual
		r.c.run.Count("header_subscription_requested_again", 1)
		return make(chan *header.ExtendedHeader), nil
	}
	r.wg.Add(1)
	go s.feedLoop()
	return s.feed, nil
}

func (s *c20Sub) feedLoop() {
	r := s.r
	defer r.wg.Done()
	closeFeed := func() {
		r.mu.Lock()
		r.clock++
		s.feedClosedAt = r.clock
		r.logLocked(s, "feed-closed", s.taken)
		r.mu.Unlock()
		close(s.feed)
	}
	for i, h := range r.headers {
		r.mu.Lock()
		cand := i-s.R >= c20Buf // the producer may find the buffer full when it takes this header
		if cand {
			s.ovfCand[i] = true
		}
		r.mu.Unlock()
		r.ev(s, "feed-start", i)
		select {
		case s.feed <- h:
			r.mu.Lock()
			s.taken = i + 1
			if cand {
				s.ovfTaken = true
			}
			full := c20Len(s.out) >= c20Buf
			r.mu.Unlock()
			r.c.run.Count("headers_taken", 1)
			r.ev(s, "feed-taken", i)
			if cand || full {
				s.setDrain() // the stream may have ended by overflow: the consumer must look
			}
			switch s.p.Consumer {
			case "slow2":
				if i%2 == 1 {
					s.permit <- struct{}{}
				}
			case "slow3":
				if i%3 == 2 {
					s.permit <- struct{}{}
				}
			}
		case <-s.closeReq:
			closeFeed()
			return
		case <-s.closedCh:
			return
		}
	}
	r.mu.Lock()
	s.fedAll = true
	r.mu.Unlock()
	s.setDrain()
	r.checkIdle()
	select {
	case <-s.closeReq:
		closeFeed()
	case <-s.closedCh:
	}
}

func (r *c20Run) outcome(s *c20Sub, idx, attempt int) string {
	if s.i == r.p.ForeverSub && idx == r.p.ForeverIdx {
		return r.p.ForeverKind
	}
	sc := s.p.Script[idx]
	if attempt < len(sc) {
		return sc[attempt]
	}
	if (idx+s.i)%3 == 0 {
		return "ok-yield"
	}
	return "ok"
}

func (r *c20Run) headerGetter(ctx context.Context, height uint64) (*header.ExtendedHeader, error) {
	s, _ := ctx.Value(c20CtxKey{}).(*c20Sub)
	idx, ok := r.byH[height]
	if s == nil || !ok {
		r.c.run.Violation("C20 retrieval outside the subscription (unknown height or foreign context)", r.witness(map[string]any{"height": height}))
		return nil, errors.New("c20: unknown height")
	}
	r.mu.Lock()
	a := s.attempts[idx]
	s.attempts[idx] = a + 1
	out := r.outcome(s, idx, a)
	s.cur, s.curIdx, s.inGetter = out, idx, true
	unread := c20Len(s.out)
	var hard chan struct{}
	boundNow := false
	if s.cancelAt > 0 || r.stopAt > 0 || s.feedClosedAt > 0 {
		s.postTrig++
		if s.postTrig > c20StepBound && !s.boundHit {
			s.boundHit, boundNow = true, true
		}
	}
	hard = s.hard
	fireRel := false
	if r.p.TrigMode == "forever" && s.i == r.p.ForeverSub && idx == r.p.ForeverIdx && !r.trigFired &&
		(a+1 >= r.p.TrigAfter || out == "block") {
		r.trigFired, fireRel = true, true
	}
	r.mu.Unlock()
	r.c.run.Count("attempt/"+out, 1)

	if unread >= c20Buf {
		// the producer took this header while a full buffer was unread and still processes it
		r.c.run.Violation("C20 header processed while the subscriber is a full buffer (16) behind", r.witness(map[string]any{"header_idx": idx, "unread": unread}))
	}
	if boundNow {
		r.boundExceeded(s)
	}
	if hard != nil {
		<-hard // unrescuable spinning producer of an already reported violation: park it
	}
	r.ev(s, "hget/"+out, idx)
	if fireRel {
		if out == "block" {
			go func() {
				r.inject(r.p.TrigKind, r.p.TrigSub, "primary")
				r.parkOne.Do(func() { close(r.park) })
			}()
		} else {
			r.inject(r.p.TrigKind, r.p.TrigSub, "primary")
		}
	}
	if out == "hdr-err" {
		r.endAttempt(s, idx, true, false)
		return nil, errors.New("c20: scripted header-store failure")
	}
	return r.headers[idx], nil
}

func (r *c20Run) endAttempt(s *c20Sub, idx int, failed, notFound bool) {
	r.mu.Lock()
	s.inGetter = false
	if failed {
		s.failures[idx]++
	}
	if notFound {
		s.notFound[idx] = true
	}
	r.mu.Unlock()
}

// boundExceeded: the producer keeps retrieving although a closing cause was injected more than
// c20StepBound attempts ago: non-termination by step bound.
func (r *c20Run) boundExceeded(s *c20Sub) {
	r.mu.Lock()
	cause := "feed-close"
	switch {
	case s.cancelAt > 0:
		cause = "subscriber-cancel"
	case r.stopAt > 0:
		cause = "service-stop"
	}
	canRescue := s.cancelAt == 0
	if !canRescue {
		s.hard = make(chan struct{})
	}
	r.mu.Unlock()
	dump := c20Dump()
	r.c.run.Count("no_close/"+cause+"/spinning", 1)
	r.c.run.Violation("C20 stream not ended after "+cause+" while retrieval keeps failing (producer spinning past step bound)", r.witness(map[string]any{
		"step_bound": c20StepBound, "producer_goroutines": c20ProducerStacks(dump),
	}))
	if canRescue {
		s.setDrain()
		s.cancel() // rescue, so that the run can be wound up; the verdict is already recorded
	}
}

type c20Getter struct{ r *c20Run }

func (g c20Getter) GetNamespaceData(ctx context.Context, h *header.ExtendedHeader, ns libshare.Namespace) (shwap.NamespaceData, error) {
	r := g.r
	s, _ := ctx.Value(c20CtxKey{}).(*c20Sub)
	idx, ok := r.byH[h.Height()]
	if s == nil || !ok || !ns.Equals(s.ns) || h != r.headers[idx] {
		r.c.run.Violation("C20 retrieval outside the subscription (unknown height or foreign context)", r.witness(map[string]any{"height": h.Height(), "namespace": ns.String()}))
		return nil, errors.New("c20: unknown request")
	}
	r.mu.Lock()
	out := s.cur
	r.mu.Unlock()
	r.ev(s, "nget/"+out, idx)
	yield := func() {
		for i := 0; i < 3; i++ {
			runtime.Gosched()
		}
	}
	switch out {
	case "ok", "ok-yield":
		if out == "ok-yield" {
			yield()
		}
		r.endAttempt(s, idx, false, false)
		return r.blocks[idx].nd[s.key], nil
	case "get-notfound":
		r.endAttempt(s, idx, true, true)
		return nil, shwap.ErrNotFound
	case "get-deadline":
		r.endAttempt(s, idx, true, false)
		return nil, fmt.Errorf("c20: scripted request timeout: %w", context.DeadlineExceeded)
	case "get-yield-err":
		yield()
		r.endAttempt(s, idx, true, false)
		return nil, errors.New("c20: scripted transient failure (slow)")
	case "block":
		<-ctx.Done() // a getter that waits for the data honours only its context
		r.endAttempt(s, idx, true, false)
		return nil, ctx.Err()
	default: // get-err, spin
		r.endAttempt(s, idx, true, false)
		return nil, errors.New("c20: scripted transient failure")
	}
}

func (g c20Getter) GetSamples(context.Context, *header.ExtendedHeader, []shwap.SampleCoords) ([]shwap.Sample, error) {
	return nil, shwap.ErrOperationNotSupported
}

func (g c20Getter) GetEDS(context.Context, *header.ExtendedHeader) (*rsmt2d.ExtendedDataSquare, error) {
	return nil, shwap.ErrOperationNotSupported
}

func (g c20Getter) GetRow(context.Context, *header.ExtendedHeader, int) (shwap.Row, error) {
	return shwap.Row{}, shwap.ErrOperationNotSupported
}

func (g c20Getter) GetRangeNamespaceData(context.Context, *header.ExtendedHeader, int, int) (shwap.RangeNamespaceData, error) {
	return shwap.RangeNamespaceData{}, shwap.ErrOperationNotSupported
}

// ---------------------------------------------------------------------------------------------
// consumer side: the observation point

func (s *c20Sub) consume() {
	r := s.r
	defer r.wg.Done()
	for {
		select {
		case <-s.permit:
		case <-s.drainCh:
		}
		resp, ok := <-s.out
		if !ok {
			r.mu.Lock()
			r.clock++
			s.closedAt = r.clock
			r.logLocked(s, "closed", s.R)
			r.mu.Unlock()
			close(s.closedCh)
			r.checkIdle()
			return
		}
		r.onResponse(s, resp)
	}
}

func (r *c20Run) onResponse(s *c20Sub, resp *blob.SubscriptionResponse) {
	r.mu.Lock()
	i := s.R
	s.R++
	r.clock++
	r.logLocked(s, "recv", i)
	failures, nf, broken := s.failures[i], s.notFound[i], s.broken
	r.mu.Unlock()
	run := r.c.run
	run.Eval(1)
	run.Count("responses_checked", 1)
	if broken {
		return
	}
	bad := func(sig string, extra map[string]any) {
		run.Violation(sig, r.witness(extra))
		r.mu.Lock()
		s.broken = true
		r.mu.Unlock()
		s.setDrain()
		s.cancel() // wind the subscription up; the sequence is already refuted
	}
	switch {
	case resp == nil || resp.Header == nil:
		bad("C20 nil response on the stream", map[string]any{"position": i})
		return
	case i >= r.p.N:
		bad("C20 response sequence: more responses than headers fed", map[string]any{"position": i, "height": resp.Height})
		return
	}
	want := r.headers[i]
	if resp.Height != want.Height() || uint64(resp.Header.Height) != want.Height() {
		kind := "gap (a height was skipped)"
		if resp.Height < want.Height() {
			kind = "duplicate or out-of-order height"
		}
		bad("C20 response sequence: "+kind, map[string]any{"position": i, "expected_height": want.Height(), "got_height": resp.Height, "got_header_height": resp.Header.Height})
		return
	}
	if string(resp.Header.DataHash) != string(want.RawHeader.DataHash) {
		bad("C20 response carries another header than the one fed", map[string]any{"position": i, "height": resp.Height})
		return
	}
	ref := r.blocks[i].ref[s.key]
	defer r.checkIdle()
	if diff := c20CompareBlobs(resp.Blobs, ref); diff != "" {
		sig := "C20 response blobs differ from the blobs of the namespace in the block"
		if nf && len(resp.Blobs) == 0 {
			sig = "C20 getter ErrNotFound (data not retrievable yet) emitted as an empty blob list instead of being retried"
			run.Count("notfound_emitted_empty", 1)
		}
		// not winding the subscription up: the sequence oracle stays meaningful
		run.Violation(sig, r.witness(map[string]any{"position": i, "height": resp.Height, "diff": diff, "block": r.blocks[i].id,
			"failed_attempts_before": failures, "reference_blobs": len(ref)}))
		return
	}
	if len(ref) > 0 {
		run.Count("responses_with_blobs_equal", 1)
	} else {
		run.Count("responses_empty_equal", 1)
	}
	if failures > 0 {
		run.Count("retried_heights_delivered", 1)
		run.Max("max_failed_attempts_before_delivery", failures)
	}
}

// checkIdle injects the final cause once a subscription has delivered everything that was fed.
func (r *c20Run) checkIdle() {
	var acts []func()
	r.mu.Lock()
	quiet, open := true, false
	for _, s := range r.subs {
		if s.closedAt > 0 {
			continue
		}
		open = true
		if !(s.fedAll && s.R == r.p.N) {
			quiet = false
			continue
		}
		if !s.finalDone && r.p.Final != "stop" {
			s.finalDone = true
			kind := r.p.Final
			if kind == "mixed" {
				kind = []string{"cancel", "feedclose"}[s.i%2]
			}
			si := s.i
			acts = append(acts, func() { r.inject(kind, si, "final") })
		}
	}
	if r.p.Final == "stop" && quiet && open && !r.finalStop {
		r.finalStop = true
		acts = append(acts, func() { r.inject("stop", -1, "final") })
	}
	r.mu.Unlock()
	for _, a := range acts {
		a()
	}
}

// ---------------------------------------------------------------------------------------------
// one run

func (c *c20) start(p c20Params) *c20Run {
	r := &c20Run{c: c, id: c.nrun.Add(1), p: p, byH: map[uint64]int{}, allDone: make(chan struct{}), park: make(chan struct{})}
	nb := len(c.pool.blocks)
	for i := 0; i < p.N; i++ {
		b := c.pool.blocks[(p.Off+i*7)%nb]
		h := &header.ExtendedHeader{DAH: b.sq.Roots}
		h.RawHeader.Height = int64(p.H0) + int64(i)
		h.RawHeader.ChainID = "verif"
		h.RawHeader.DataHash = b.sq.Roots.Hash()
		r.headers = append(r.headers, h)
		r.blocks = append(r.blocks, b)
		r.byH[h.Height()] = i
	}
	r.svc = blob.NewService(nil, c20Getter{r}, r.headerGetter, r.headerSub)
	_ = r.svc.Start(context.Background())
	for i, sp := range p.Subs {
		s := &c20Sub{r: r, i: i, p: sp, ns: c.pool.all[sp.NS], feed: make(chan *header.ExtendedHeader), closeReq: make(chan struct{}),
			closedCh: make(chan struct{}), drainCh: make(chan struct{}), permit: make(chan struct{}, p.N+1),
			attempts: map[int]int{}, failures: map[int]int{}, notFound: map[int]bool{}, ovfCand: map[int]bool{}}
		s.key = c20Key(s.ns)
		cctx, cancel := context.WithCancel(context.Background())
		s.ctx, s.cancel = context.WithValue(cctx, c20CtxKey{}, s), cancel
		if sp.Consumer == "prompt" {
			s.setDrain()
		}
		r.subs = append(r.subs, s)
		c.run.Count("consumer/"+sp.Consumer, 1)
	}
	if p.TrigMode == "step" && p.TrigAt <= 0 {
		r.mu.Lock()
		r.trigFired = true
		r.mu.Unlock()
		r.inject(p.TrigKind, p.TrigSub, "primary") // before anything is subscribed
	}
	var subWG sync.WaitGroup
	for _, s := range r.subs {
		subWG.Add(1)
		r.wg.Add(1)
		go func(s *c20Sub) {
			defer subWG.Done()
			out, err := r.svc.Subscribe(s.ctx, s.ns)
			if err != nil {
				c.run.Violation("C20 Subscribe on a started service fails", r.witness(map[string]any{"err": err.Error()}))
				r.wg.Done()
				return
			}
			r.mu.Lock()
			s.out = out
			r.mu.Unlock()
			go s.consume()
		}(s)
	}
	go func() {
		subWG.Wait()
		r.wg.Wait()
		close(r.allDone)
	}()
	return r
}

// finish applies the closure oracles once everything of the run has wound up.
func (r *c20Run) finish() {
	run := r.c.run
	r.mu.Lock()
	defer r.mu.Unlock()
	run.Count("runs/"+r.p.Class, 1)
	run.SetAdd("interleavings", fmt.Sprintf("%x", r.ilv))
	run.Max("max_steps_in_a_run", int(r.clock))
	var causes []string
	for _, s := range r.subs {
		run.Eval(1)
		run.Count("subscriptions", 1)
		cause := ""
		switch {
		case s.closedAt == 0:
			cause = "never-closed"
		case s.broken:
			cause = "wound-up-after-violation"
		case s.boundHit || r.hang:
			cause = "rescued-after-violation"
		default:
			// earliest injected cause that precedes the observed closure
			best := int64(0)
			pick := func(at int64, name string) {
				if at > 0 && at < s.closedAt && (best == 0 || at < best) {
					best, cause = at, name
				}
			}
			pick(s.cancelAt, "cancel")
			pick(r.stopAt, "stop")
			pick(s.closeReqAt, "feedclose")
			if s.ovfTaken && (cause == "" || (s.R == s.taken-1 && s.ovfCand[s.taken-1])) {
				cause = "overflow" // closed at a header taken while ≥ 16 responses were unread
			}
			if cause == "" {
				cause = "none"
				w := map[string]any{"sub": s.i}
				r.mu.Unlock()
				run.Violation("C20 stream closed without cause (no cancel, stop, feed close or overflow)", r.witness(w))
				r.mu.Lock()
			}
		}
		run.Count("closed/"+cause, 1)
		causes = append(causes, s.p.Consumer+">"+cause)
		if s.closedAt > 0 && !s.broken {
			// at most the header being processed may be missing
			if s.R < s.taken-1 || s.R > s.taken {
				w := map[string]any{"sub": s.i, "responses": s.R, "headers_taken": s.taken}
				r.mu.Unlock()
				run.Violation("C20 responses missing at closure: a header was followed by another one but never delivered", r.witness(w))
				r.mu.Lock()
			}
			if s.postTrig > 0 && !s.boundHit {
				run.Max("max_attempts_after_cause_before_close", s.postTrig)
			}
		}
	}
	sort.Strings(causes)
	nfail := 0
	for _, s := range r.subs {
		nfail += len(s.failures)
	}
	fclass := "nofail"
	if nfail > 0 {
		fclass = "fail"
	}
	run.Distinct(fmt.Sprintf("%s|n=%d|%s|%s@%s|%s/%s|final=%s|%s", r.p.Class, r.p.N, strings.Join(causes, ","), r.p.TrigKind, r.phase,
		r.p.ForeverKind, r.p.TrigMode, r.p.Final, fclass))
	if r.id%37 == 1 {
		run.Sample(map[string]any{"params": r.p, "closures": causes, "steps": r.clock, "primary_trigger_phase": r.phase, "tail_of_history": r.log[max(0, len(r.log)-30):]})
	}
}

// ---------------------------------------------------------------------------------------------
// scenario generation

var c20FailKinds = []string{"hdr-err", "get-err", "get-err", "get-deadline", "get-yield-err", "get-notfound"}

func c20Gen(r *vkit.RNG, pool *c20Pool, class string) c20Params {
	p := c20Params{Class: class, H0: uint64(r.Range(1, 100000)), Off: r.Intn(len(pool.blocks)), TrigMode: "none", ForeverSub: -1, ForeverIdx: -1}
	nsubs := r.Range(1, 4)
	pFail := 4
	switch class {
	case "random":
		p.N = vkit.Pick(r, []int{1, 2, 3, 5, 8, 13, 20, 30, 45, 60})
	case "overflow":
		p.N = r.Range(17, 60)
	case "forever":
		p.N = r.Range(1, 24)
	case "sweep":
		p.N = r.Range(3, 4)
		nsubs = 2
		pFail = 3
	}
	perm := r.Perm(len(pool.all))
	for i := 0; i < nsubs; i++ {
		sp := c20SubParams{NS: perm[i], Script: map[int][]string{}}
		if i == 0 && r.Chance(3, 4) {
			sp.NS = r.Intn(len(pool.used)) // make sure most runs watch a namespace that has blobs
			for j := 1; j < nsubs; j++ {
				if perm[j] == sp.NS {
					perm[j] = perm[0]
				}
			}
		}
		sp.Consumer = vkit.Pick(r, []string{"prompt", "prompt", "prompt", "slow2", "slow3", "stalled"})
		if class == "overflow" && i == 0 {
			sp.Consumer = vkit.Pick(r, []string{"stalled", "stalled", "slow2", "slow3"})
			if sp.Consumer == "slow2" {
				p.N = r.Range(36, 60)
			}
			if sp.Consumer == "slow3" {
				p.N = r.Range(28, 60)
			}
		}
		if class == "sweep" {
			sp.Consumer = []string{"prompt", "slow2"}[i]
		}
		p.Subs = append(p.Subs, sp)
	}
	for i := range p.Subs {
		for idx := 0; idx < p.N; idx++ {
			if r.Chance(1, pFail) {
				var sc []string
				for k, n := 0, r.Range(1, 4); k < n; k++ {
					sc = append(sc, vkit.Pick(r, c20FailKinds))
				}
				p.Subs[i].Script[idx] = sc
			}
		}
	}
	p.Final = vkit.Pick(r, []string{"cancel", "feedclose", "stop", "mixed"})
	switch class {
	case "random", "overflow":
		if !r.Chance(1, 4) {
			p.TrigMode = "step"
			p.TrigKind = vkit.Pick(r, []string{"cancel", "stop", "feedclose"})
			p.TrigSub = r.Intn(nsubs)
			p.TrigAt = int64(r.Range(0, p.N*nsubs*6))
			if class == "overflow" {
				p.TrigSub = nsubs - 1
				p.TrigAt = int64(r.Range(p.N*nsubs*2, p.N*nsubs*7))
			}
		}
	case "forever":
		p.TrigMode = "forever"
		p.ForeverSub = r.Intn(nsubs)
		p.ForeverIdx = r.Intn(p.N)
		p.TrigSub = p.ForeverSub
		p.TrigAfter = r.Range(1, 30)
	}
	return p
}

// ---------------------------------------------------------------------------------------------

func TestC20(t *testing.T) {
	run := vkit.NewRun(t, "C20", "exploration",
		"case = one run of the real blob.Service: 1–4 concurrent subscriptions (distinct namespaces) × header feed of ≤ 60 real blocks × "+
			"failure script per (subscription, height, attempt) × consumer pace {prompt, slow, stalled} × closing cause {cancel, stop, feed close} "+
			"injected at a logical step index (every index of small base scenarios; random indices of large ones; after k attempts of a retrieval "+
			"failing forever; at idle); evaluations = responses checked against the reference + closures judged; distinct = distinct "+
			"(class, feed length, per-subscription consumer>closure cause, trigger kind @ producer phase, failure class) tuples observed; "+
			"non-trivial = the real producer goroutine ran against the scripted collaborators")
	defer run.Finish()
	_ = logging.SetLogLevel("blob", "fatal") // every scripted failure is logged at error level otherwise
	seed := vkit.Seed()
	rng := vkit.NewRNG(seed, "C20")
	pool, err := c20BuildPool(rng.Split("pool"), vkit.Scale(12, 28))
	if err != nil {
		run.Inconclusive("block pool construction failed: " + err.Error())
		return
	}
	c := &c20{run: run, pool: pool}
	nblobs := 0
	for _, b := range pool.blocks {
		for _, l := range b.ref {
			nblobs += len(l)
		}
	}
	run.Count("pool/blocks", len(pool.blocks))
	run.Count("pool/blobs", nblobs)

	// first, while the process is quiet (runs parked later may leave goroutines behind): the feed the
	// blob module is really wired to
	c.feedFamily(rng.Split("header-service-feed"))

	var pendMu sync.Mutex
	var pending []*c20Run
	// await waits for the run to wind up; a run that does not is parked for the stable-state check
	// (parking is scheduling only, never a verdict).
	// how long a run is waited for before it is parked: generous at first, short once several runs had to
	// be parked (a tree on which many streams do not end would otherwise cost 25 s per run)
	patience := func() time.Duration {
		pendMu.Lock()
		n := len(pending)
		pendMu.Unlock()
		if n >= 4 {
			return 2 * time.Second
		}
		return 25 * time.Second
	}
	await := func(r *c20Run) {
		select {
		case <-r.allDone:
			r.finish()
			return
		case <-r.park: // a blocking retrieval + a cause other than its context: give it a moment
			select {
			case <-r.allDone:
				r.finish()
				return
			case <-time.After(30 * time.Millisecond):
			}
		case <-time.After(patience()):
		}
		pendMu.Lock()
		pending = append(pending, r)
		pendMu.Unlock()
	}

	var list []c20Params
	// (1) sweeps: every step index of a small base scenario, for every cause
	nbases := vkit.Scale(2, 14)
	for b := 0; b < nbases; b++ {
		br := rng.SplitN("sweep-base", b)
		base := c20Gen(br, pool, "sweep")
		dry := c.start(base)
		select {
		case <-dry.allDone:
			dry.finish()
		case <-time.After(25 * time.Second):
			run.Inconclusive("sweep base scenario did not wind up without trigger")
			pendMu.Lock()
			pending = append(pending, dry)
			pendMu.Unlock()
			continue
		}
		steps := dry.clock
		run.Count("sweep/base_steps", int(steps))
		for _, kind := range []string{"cancel", "stop", "feedclose"} {
			for at := int64(0); at <= steps+1; at++ {
				p := base
				p.TrigMode, p.TrigKind, p.TrigAt, p.TrigSub = "step", kind, at, int(at)%len(base.Subs)
				list = append(list, p)
				run.Count("sweep/"+kind+"/step_indices", 1)
			}
		}
	}
	// (2) a retrieval that fails forever (spinning or blocking), then each cause
	nf := vkit.Scale(60, 1200)
	for i := 0; i < nf; i++ {
		p := c20Gen(rng.SplitN("forever", i), pool, "forever")
		p.ForeverKind = []string{"spin", "block"}[i%2]
		p.TrigKind = []string{"cancel", "stop", "feedclose"}[(i/2)%3]
		if p.ForeverKind == "block" {
			p.TrigAfter = 1
		}
		list = append(list, p)
		run.Count("forever/"+p.ForeverKind+"/"+p.TrigKind, 1)
	}
	// (3) consumers falling a full buffer behind
	for i, n := 0, vkit.Scale(36, 600); i < n; i++ {
		list = append(list, c20Gen(rng.SplitN("overflow", i), pool, "overflow"))
	}
	// (4) random large scenarios
	for i, n := 0, vkit.Scale(80, 2400); i < n; i++ {
		list = append(list, c20Gen(rng.SplitN("random", i), pool, "random"))
	}

	var wg sync.WaitGroup
	sem := make(chan struct{}, 16)
	for _, p := range list {
		wg.Add(1)
		sem <- struct{}{}
		go func(p c20Params) {
			defer wg.Done()
			defer func() { <-sem }()
			await(c.start(p))
		}(p)
	}
	wg.Wait()

	// Runs that have not wound up: the whole process is now a closed system (nothing else is being
	// driven). Either they finish, or the goroutine dump stops changing: then the stream can never
	// end by itself — a logical fact, with the dump as witness.
	if len(pending) > 0 {
		run.Count("parked_runs", len(pending))
		all := make(chan struct{})
		go func() {
			for _, r := range pending {
				<-r.allDone
			}
			close(all)
		}()
		verdict, dump := vkit.WaitStable(all, vkit.StableOpts{Polls: 20, Every: 40 * time.Millisecond, MaxWait: 90 * time.Second})
		switch verdict {
		case "hang":
			for _, r := range pending {
				select {
				case <-r.allDone:
					continue
				default:
				}
				r.mu.Lock()
				r.hang = true
				var stuck []*c20Sub
				for _, s := range r.subs {
					if s.closedAt == 0 {
						stuck = append(stuck, s)
					}
				}
				stopAt := r.stopAt
				r.mu.Unlock()
				for _, s := range stuck {
					r.mu.Lock()
					cause, state := "no cause", "not delivering what was fed"
					switch {
					case s.cancelAt > 0:
						cause = "subscriber-cancel"
					case stopAt > 0:
						cause = "service-stop"
					case s.feedClosedAt > 0:
						cause = "feed-close"
					}
					if s.inGetter {
						state = "retrieval blocked"
					}
					waiting := cause[0] == 'n' && s.fedAll && s.R == r.p.N
					idle := cause[0] == 'n' && !s.inGetter
					r.mu.Unlock()
					asleep := c20BlobAsleep(dump)
					if idle && !waiting {
						// no cause was injected and the producer is not inside a retrieval: it pauses between
						// attempts (a timer in the service, e.g. a retry back-off). Slow is not wrong: not judged
						run.Count("parked_between_attempts(not judged)", 1)
						continue
					}
					if asleep && cause[0] != 'n' {
						state = "the producer sleeps without watching the cause (goroutine in time.Sleep inside the blob service)"
					}
					if waiting {
						// everything delivered, no cause injected yet: the final stop of this run waits
						// for the hung sibling subscription; an open stream is correct here
						run.Count("parked_idle_siblings", 1)
						continue
					}
					run.Count("no_close/"+cause+"/blocked", 1)
					run.Violation("C20 stream not ended after "+cause+" while "+state+" (stable state: nothing can end it)", r.witness(map[string]any{
						"sub": s.i, "repo_frames": vkit.RepoFrames(dump), "blob_goroutines": c20BlobStacks(dump)}))
				}
			}
		case "inconclusive":
			run.Inconclusive(fmt.Sprintf("%d parked runs neither wound up nor reached a stable state", len(pending)))
		}
		// rescue: cancel every subscriber so that the goroutines go away, then apply the remaining oracles
		for _, r := range pending {
			for _, s := range r.subs {
				s.setDrain()
				s.cancel()
			}
		}
		if v, _ := vkit.WaitStable(all, vkit.StableOpts{Polls: 20, Every: 40 * time.Millisecond, MaxWait: 60 * time.Second}); v != "done" {
			run.Inconclusive("parked runs did not wind up after the rescue cancel: " + v)
		} else {
			for _, r := range pending {
				r.finish()
			}
		}
	}

	run.Count("step_bound", c20StepBound)
	run.Require("responses_checked", 1500)
	run.Require("responses_with_blobs_equal", 300)
	run.Require("responses_empty_equal", 300)
	run.Require("retried_heights_delivered", 100)
	run.Require("closed/cancel", 20)
	run.Require("closed/stop", 20)
	run.Require("closed/feedclose", 20)
	run.Require("closed/overflow", 8)
	run.Require("trigger/primary/cancel", 20)
	run.Require("trigger/primary/stop", 20)
	run.Require("trigger/primary/feedclose", 20)
	run.Assume("the header feed is an unbuffered channel of consecutive heights, as produced by nodebuilder/header.Service.Subscribe")
	run.Assume("collaborators stay inside their contracts: the getter returns honest namespace data or an error (incl. shwap.ErrNotFound, context errors) and honours its context")
	run.Assume(fmt.Sprintf("prompt closure of a spinning producer is a step bound: ≤ %d retrieval attempts after the cause (legitimate: ≤ 1 per header still fed); a blocked producer is judged by the stable-state oracle", c20StepBound))
}
