package checks

import (
	"context"
	"fmt"
	"os"
	"path/filepath"
	"sync"

	"github.com/celestiaorg/celestia-node/libs/verifhook"
	"github.com/celestiaorg/celestia-node/store"
	"github.com/celestiaorg/celestia-node/zz_verif/vkit"
)

// Interrupted-put part of C05: "for any block put into the store, every read path returns the block"
// also when the successful put ran over what an earlier, interrupted put of the same block left
// behind. The store directory is snapshotted at a marker inside the real write path (the image a
// process death at that point leaves), the store is opened on the image, the block is put again, and
// the accessor handed out — at once, and after one more reopen — goes through the read-equality
// battery. Whether the re-put succeeds at all is C07's question; here only what a successful put
// serves is judged. Runs alone (the marker handler is process-wide).

type c05cut struct {
	marker string
	nth    int // nth occurrence of the marker (1-based)
}

func c05interrupted(run *vkit.Run, rng *vkit.RNG, base string) {
	ctx := context.Background()
	widths := []int{8, 16, 32}
	if vkit.Thorough() {
		widths = []int{4, 8, 16, 16, 32, 32, 64}
	}
	for wi, w := range widths {
		r := rng.SplitN("interrupted", wi)
		sq := vkit.GenSquare(r, w, vkit.Pick(r, vkit.Layouts), r.Intn(w))
		n := w * w
		cuts := []c05cut{
			{"ods.created", 1}, {"header.version-written", 1}, {"ods.header-written", 1}, {"ods.roots-buffered", 1},
			{"ods.share-buffered", 1 + r.Intn(n)}, {"ods.share-buffered", n}, {"ods.before-flush", 1}, {"ods.written", 1}, {"ods.closed", 1},
			{"q4.created", 1}, {"q4.share-buffered", 1}, {"q4.share-buffered", n / 4}, {"q4.share-buffered", n / 2}, {"q4.share-buffered", 1 + r.Intn(n)},
			{"q4.share-buffered", n - 1}, {"q4.share-buffered", n}, {"q4.before-flush", 1}, {"q4.written", 1}, {"q4.closed", 1},
			{"store.put.files-written", 1}, {"store.link.before", 1},
		}
		for ci, cut := range cuts {
			for _, reput := range []string{"PutODSQ4", "PutODS"} {
				height := uint64(8000 + wi*100 + ci)
				live := filepath.Join(base, fmt.Sprintf("intr-%d-%d-%s-live", wi, ci, reput))
				img := filepath.Join(base, fmt.Sprintf("intr-%d-%d-%s-img", wi, ci, reput))
				name := "store/re-put-over-interrupted-put"
				func() {
					defer os.RemoveAll(live)
					defer os.RemoveAll(img)
					if err := os.MkdirAll(live, 0o755); err != nil {
						run.Inconclusive("interrupted part: " + err.Error())
						return
					}
					s, err := store.NewStore(&store.Parameters{RecentBlocksCacheSize: 2}, live)
					if err != nil {
						run.Inconclusive("interrupted part: " + err.Error())
						return
					}
					var mu sync.Mutex
					seen, taken := 0, false
					var copyErr error
					restore := verifhook.Set(&verifhook.Handler{Point: func(m string, _ any) {
						if m != cut.marker {
							return
						}
						mu.Lock()
						defer mu.Unlock()
						seen++
						if seen == cut.nth && !taken {
							taken = true
							copyErr = c07copy(live, img)
						}
					}})
					err = s.PutODSQ4(ctx, sq.Roots, height, sq.EDS)
					restore()
					_ = s.Stop(ctx)
					if err != nil {
						run.Violation("C05 cannot open representation "+name, map[string]any{"square": sq.Desc(), "err": "first put: " + err.Error()})
						return
					}
					if !taken || copyErr != nil {
						run.Count("interrupted/marker-not-reached:"+cut.marker, 1)
						return
					}
					run.Count("interrupted/images", 1)
					s2, err := store.NewStore(&store.Parameters{RecentBlocksCacheSize: 2}, img)
					if err != nil {
						run.Count("interrupted/store-does-not-open(C07)", 1)
						return
					}
					if reput == "PutODSQ4" {
						err = s2.PutODSQ4(ctx, sq.Roots, height, sq.EDS)
					} else {
						err = s2.PutODS(ctx, sq.Roots, height, sq.EDS)
					}
					if err != nil {
						run.Count("interrupted/re-put-refused(C07)", 1)
						_ = s2.Stop(ctx)
						return
					}
					for pass := 0; pass < 2; pass++ {
						acc, err := s2.GetByHeight(ctx, height)
						run.Eval(1)
						if err != nil {
							run.Violation("C05 cannot open representation "+name, map[string]any{"square": sq.Desc(), "interrupted_at": fmt.Sprintf("%s #%d", cut.marker, cut.nth), "re-put": reput, "pass": pass, "err": err.Error()})
							break
						}
						calls, probs := vkit.Battery(ctx, r.SplitN(fmt.Sprintf("b%d", ci), pass), acc, sq, vkit.BatteryOpts{Samples: 32, Bounds: true, ReadSizes: []int{513, 64 << 10}})
						_ = acc.Close()
						run.Count("accessor_calls", calls)
						run.Count("rep/"+name, 1)
						run.Count("interrupted/at/"+cut.marker, 1)
						run.Distinct(fmt.Sprintf("%s|%s|%s#%d|%s|%d", sq.Desc(), name, cut.marker, cut.nth, reput, pass))
						for _, p := range probs {
							run.Violation(fmt.Sprintf("C05 %s: %s disagrees with the stored square", name, p.Call),
								map[string]any{"square": sq.Desc(), "interrupted_at": fmt.Sprintf("%s #%d", cut.marker, cut.nth), "re-put": reput, "after_reopen": pass == 1, "what": p.What})
						}
						if pass == 0 {
							_ = s2.Stop(ctx)
							if s2, err = store.NewStore(&store.Parameters{RecentBlocksCacheSize: 2}, img); err != nil {
								run.Count("interrupted/store-does-not-reopen(C07)", 1)
								return
							}
						}
					}
					_ = s2.Stop(ctx)
				}()
			}
		}
	}
	run.Require("rep/store/re-put-over-interrupted-put", 60)
	run.Require("interrupted/at/q4.share-buffered", 10)
	run.Require("interrupted/at/ods.share-buffered", 4)
}
