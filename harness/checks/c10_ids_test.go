package checks

import (
	"bytes"
	"encoding"
	"encoding/binary"
	"fmt"
	"reflect"

	"github.com/ipfs/go-cid"
	mh "github.com/multiformats/go-multihash"

	libshare "github.com/celestiaorg/go-square/v4/share"

	"github.com/celestiaorg/celestia-node/share/shwap"
	"github.com/celestiaorg/celestia-node/share/shwap/p2p/bitswap"
	"github.com/celestiaorg/celestia-node/zz_verif/vkit"
)

// S4: every identifier maps to exactly one CID and back.

type c10IDCheck struct {
	c     *c10
	byCid map[string]string // CID key -> identifier description
	byID  map[string]string // identifier description -> CID key
}

func c10IDOf(b bitswap.Block) (any, []byte) {
	var id any
	switch x := b.(type) {
	case *bitswap.SampleBlock:
		id = x.ID
	case *bitswap.RowBlock:
		id = x.ID
	case *bitswap.RowNamespaceDataBlock:
		id = x.ID
	case *bitswap.RangeNamespaceDataBlock:
		id = x.ID
	default:
		return nil, nil
	}
	bin, err := id.(encoding.BinaryMarshaler).MarshalBinary()
	if err != nil {
		return id, nil
	}
	return id, bin
}

var c10Spec = map[string]struct {
	codec, mhc uint64
	size       int
}{
	"sample": {0x7810, 0x7811, shwap.SampleIDSize},
	"row":    {0x7800, 0x7801, shwap.RowIDSize},
	"rnd":    {0x7820, 0x7821, shwap.RowNamespaceDataIDSize},
	"range":  {0x7830, 0x7831, shwap.RangeNamespaceDataIDV0Size},
}

// roundTrip: ID -> CID -> (string/bytes) -> EmptyBlock -> ID.
func (k *c10IDCheck) roundTrip(kind, desc string, b bitswap.Block, height uint64) {
	run := k.c.run
	run.Eval(1)
	run.Count("ids/roundtrip", 1)
	run.Count("ids/roundtrip/"+kind, 1)
	bad := func(what string, extra map[string]any) {
		m := map[string]any{"identifier": desc, "what": what}
		for a, v := range extra {
			m[a] = v
		}
		run.Violation("C10 "+kind+" identifier does not survive ID→CID→ID: "+what, m)
	}
	var c cid.Cid
	if p, site := vkit.Recover(func() { c = b.CID() }); p != nil {
		run.Violation("C10 "+kind+" CID() panics @"+site, map[string]any{"identifier": desc, "panic": fmt.Sprint(p)})
		return
	}
	id, bin := c10IDOf(b)
	spec := c10Spec[kind]
	pf := c.Prefix()
	if pf.Version != 1 || pf.Codec != spec.codec || pf.MhType != spec.mhc || pf.MhLength != spec.size || len(bin) != spec.size {
		bad("unexpected CID prefix", map[string]any{"prefix": fmt.Sprintf("%+v", pf), "id_len": len(bin)})
		return
	}
	if !bytes.Equal(c.Hash()[len(c.Hash())-spec.size:], bin) {
		bad("digest is not the binary identifier", map[string]any{"cid": c.String(), "id": fmt.Sprintf("%x", bin)})
	}
	// text and binary forms of the CID
	if c2, err := cid.Decode(c.String()); err != nil || !c2.Equals(c) {
		bad("CID string form does not round-trip", map[string]any{"cid": c.String(), "err": fmt.Sprint(err)})
	}
	if c3, err := cid.Cast(c.Bytes()); err != nil || !c3.Equals(c) {
		bad("CID byte form does not round-trip", map[string]any{"cid": c.String(), "err": fmt.Sprint(err)})
	}
	var back bitswap.Block
	var err error
	if p, site := vkit.Recover(func() { back, err = bitswap.EmptyBlock(c) }); p != nil {
		run.Violation("C10 EmptyBlock panics @"+site, map[string]any{"identifier": desc, "cid": c.String(), "panic": fmt.Sprint(p)})
		return
	}
	if err != nil {
		bad("EmptyBlock refuses the CID of a constructed identifier", map[string]any{"cid": c.String(), "err": err.Error()})
		return
	}
	id2, bin2 := c10IDOf(back)
	if !reflect.DeepEqual(id, id2) || !bytes.Equal(bin, bin2) || back.Height() != height || !back.CID().Equals(c) {
		bad("identifier changed", map[string]any{"cid": c.String(), "before": fmt.Sprintf("%+v", id), "after": fmt.Sprintf("%+v", id2), "height_after": back.Height()})
	}
	if reflect.TypeOf(b) != reflect.TypeOf(back) {
		bad("block kind changed", map[string]any{"before": fmt.Sprintf("%T", b), "after": fmt.Sprintf("%T", back)})
	}
	// injectivity both ways
	key := c.KeyString()
	idKey := kind + "|" + desc
	if prev, ok := k.byCid[key]; ok && prev != idKey {
		run.Violation("C10 two identifiers map to one CID", map[string]any{"cid": c.String(), "a": prev, "b": idKey})
	}
	k.byCid[key] = idKey
	if prev, ok := k.byID[idKey]; ok && prev != key {
		run.Violation("C10 one identifier maps to two CIDs", map[string]any{"identifier": idKey})
	}
	k.byID[idKey] = key
	run.Distinct("id|" + idKey)
}

// refused: the constructor must refuse an out-of-range identifier; if it does not, the
// identifier must at least survive the round trip (otherwise it silently names something else).
func (k *c10IDCheck) refused(kind, desc string, b bitswap.Block, err error, height uint64) {
	run := k.c.run
	run.Eval(1)
	if err != nil || b == nil || reflect.ValueOf(b).IsNil() {
		run.Count("ids/refused/"+kind, 1)
		return
	}
	run.Count("ids/out-of-range-accepted/"+kind, 1)
	k.roundTrip(kind, desc+" (out of range, accepted by the constructor)", b, height)
}

func (c *c10) identifiers(r *vkit.RNG) {
	k := &c10IDCheck{c: c, byCid: map[string]string{}, byID: map[string]string{}}
	run := c.run
	heights := []uint64{1, 2, 1<<32 - 1, 1 << 32, 1<<32 + 1, 1 << 63, ^uint64(0) - 1, ^uint64(0)}
	for i := 0; i < vkit.Scale(4, 24); i++ {
		heights = append(heights, r.Uint64()|1)
	}
	userNS := vkit.MkNamespace(256)
	namespaces := func() []libshare.Namespace {
		out := []libshare.Namespace{libshare.TxNamespace, libshare.PayForBlobNamespace, libshare.PrimaryReservedPaddingNamespace,
			libshare.IntermediateStateRootsNamespace, libshare.PayForFibreNamespace, libshare.MaxPrimaryReservedNamespace, libshare.MinSecondaryReservedNamespace,
			libshare.TailPaddingNamespace, libshare.ParitySharesNamespace,
			vkit.MkNamespace(256), vkit.MkNamespace(^uint64(0)), vkit.MkNamespace(1 << 40)}
		id := bytes.Repeat([]byte{0xff}, libshare.NamespaceVersionZeroIDSize)
		if ns, err := libshare.NewV0Namespace(id); err == nil {
			out = append(out, ns)
		}
		for i := 0; i < 3; i++ {
			out = append(out, vkit.MkNamespace(r.Uint64()|256))
		}
		return out
	}()

	// --- exhaustive over small squares at the three boundary heights
	for _, h := range []uint64{1, 1 << 32, ^uint64(0)} {
		for _, w := range []int{1, 2, 4} {
			n := 2 * w
			for i := 0; i < n; i++ {
				b, err := bitswap.NewEmptyRowBlock(h, i, n)
				if err != nil {
					run.Violation("C10 row identifier refused inside the square", map[string]any{"h": h, "row": i, "eds": n, "err": err.Error()})
					continue
				}
				k.roundTrip("row", fmt.Sprintf("h=%d row=%d", h, i), b, h)
				for j := 0; j < n; j++ {
					sb, err := bitswap.NewEmptySampleBlock(h, shwap.SampleCoords{Row: i, Col: j}, n)
					if err != nil {
						run.Violation("C10 sample identifier refused inside the square", map[string]any{"h": h, "row": i, "col": j, "eds": n, "err": err.Error()})
						continue
					}
					k.roundTrip("sample", fmt.Sprintf("h=%d row=%d col=%d", h, i, j), sb, h)
				}
				for ni, ns := range namespaces {
					nb, err := bitswap.NewEmptyRowNamespaceDataBlock(h, i, ns, n)
					if ns.ValidateForData() != nil {
						k.refused("rnd", fmt.Sprintf("h=%d row=%d ns#%d=%x", h, i, ni, ns.Bytes()), nb, err, h)
						continue
					}
					if err != nil {
						run.Violation("C10 rnd identifier refused inside the square", map[string]any{"h": h, "row": i, "ns": fmt.Sprintf("%x", ns.Bytes()), "err": err.Error()})
						continue
					}
					k.roundTrip("rnd", fmt.Sprintf("h=%d row=%d ns=%x", h, i, ns.Bytes()), nb, h)
				}
			}
			for f := 0; f < w*w; f++ {
				for t := f + 1; t <= w*w; t++ {
					rb, err := bitswap.NewEmptyRangeNamespaceDataBlock(h, f, t, w)
					if err != nil {
						run.Violation("C10 range identifier refused inside the square", map[string]any{"h": h, "from": f, "to": t, "ods": w, "err": err.Error()})
						continue
					}
					k.roundTrip("range", fmt.Sprintf("h=%d from=%d to=%d", h, f, t), rb, h)
				}
			}
		}
	}

	// --- bounds of every square size up to the maximum, all heights
	for _, h := range heights {
		for _, n := range []int{2, 16, 64, 512} {
			w := n / 2
			for _, p := range [][2]int{{0, 0}, {0, n - 1}, {n - 1, 0}, {n - 1, n - 1}, {w - 1, w}, {r.Intn(n), r.Intn(n)}} {
				sb, err := bitswap.NewEmptySampleBlock(h, shwap.SampleCoords{Row: p[0], Col: p[1]}, n)
				if err == nil {
					k.roundTrip("sample", fmt.Sprintf("h=%d row=%d col=%d", h, p[0], p[1]), sb, h)
				} else {
					run.Violation("C10 sample identifier refused inside the square", map[string]any{"h": h, "pos": p, "eds": n, "err": err.Error()})
				}
			}
			for _, i := range []int{0, n - 1, w, r.Intn(n)} {
				if b, err := bitswap.NewEmptyRowBlock(h, i, n); err == nil {
					k.roundTrip("row", fmt.Sprintf("h=%d row=%d", h, i), b, h)
				}
				ns := vkit.Pick(r, namespaces)
				if ns.ValidateForData() == nil {
					if b, err := bitswap.NewEmptyRowNamespaceDataBlock(h, i, ns, n); err == nil {
						k.roundTrip("rnd", fmt.Sprintf("h=%d row=%d ns=%x", h, i, ns.Bytes()), b, h)
					}
				}
			}
			tot := w * w
			for _, g := range [][2]int{{0, 1}, {0, tot}, {tot - 1, tot}, {0, min(tot, 65535)}, {min(tot, 65535) - 1, min(tot, 65535)}} {
				if g[0] < 0 || g[0] >= g[1] {
					continue
				}
				rb, err := bitswap.NewEmptyRangeNamespaceDataBlock(h, g[0], g[1], w)
				if g[1] > 65535 {
					// the 16-bit legacy encoding cannot name this range: refuse, or survive
					k.refused("range", fmt.Sprintf("h=%d from=%d to=%d", h, g[0], g[1]), rb, err, h)
					continue
				}
				if err != nil {
					run.Violation("C10 range identifier refused inside the square", map[string]any{"h": h, "from": g[0], "to": g[1], "ods": w, "err": err.Error()})
					continue
				}
				k.roundTrip("range", fmt.Sprintf("h=%d from=%d to=%d", h, g[0], g[1]), rb, h)
			}
			// out of range: must be refused (or survive)
			for _, p := range [][2]int{{n, 0}, {0, n}, {-1, 0}, {0, -1}, {65536, 0}, {0, 65536}, {65536 + 1, 1}} {
				sb, err := bitswap.NewEmptySampleBlock(h, shwap.SampleCoords{Row: p[0], Col: p[1]}, n)
				k.refused("sample", fmt.Sprintf("h=%d row=%d col=%d", h, p[0], p[1]), sb, err, h)
			}
			for _, i := range []int{n, -1, 65536, 65536 + n - 1} {
				b, err := bitswap.NewEmptyRowBlock(h, i, n)
				k.refused("row", fmt.Sprintf("h=%d row=%d", h, i), b, err, h)
				nb, err := bitswap.NewEmptyRowNamespaceDataBlock(h, i, userNS, n)
				k.refused("rnd", fmt.Sprintf("h=%d row=%d ns=%x", h, i, userNS.Bytes()), nb, err, h)
			}
			for _, g := range [][2]int{{0, 0}, {1, 1}, {2, 1}, {-1, 1}, {0, tot + 1}, {tot, tot + 1}, {0, 65536}, {65535, 65536}, {65536, 65537}, {1, 65536 + 1}, {65536, 2 * 65536}} {
				rb, err := bitswap.NewEmptyRangeNamespaceDataBlock(h, g[0], g[1], w)
				if g[0] >= 0 && g[0] < g[1] && g[1] <= tot && g[1] <= 65535 {
					continue // in range after all
				}
				k.refused("range", fmt.Sprintf("h=%d from=%d to=%d", h, g[0], g[1]), rb, err, h)
			}
		}
		// height 0 never names a block
		b, err := bitswap.NewEmptyRowBlock(0, 0, 4)
		k.refused("row", "h=0 row=0", b, err, 0)
	}
	// the largest square allows To == 65536, which the 16-bit encoding cannot carry
	{
		rb, err := bitswap.NewEmptyRangeNamespaceDataBlock(7, 0, 65536, 256)
		k.refused("range", "h=7 from=0 to=65536 (whole 256×256 ODS)", rb, err, 7)
		rb, err = bitswap.NewEmptyRangeNamespaceDataBlock(7, 65535, 65536, 256)
		k.refused("range", "h=7 from=65535 to=65536 (last share of a 256×256 ODS)", rb, err, 7)
		if err != nil {
			run.Count("ids/legacy-range-last-share-unaddressable", 1)
		}
	}

	// --- CID -> ID -> CID over arbitrary digests: whatever EmptyBlock accepts must map back
	n := vkit.Scale(1500, 12000)
	kinds := []string{"sample", "row", "rnd", "range"}
	for i := 0; i < n; i++ {
		kind := kinds[i%4]
		spec := c10Spec[kind]
		digest := r.Bytes(spec.size)
		switch r.Intn(4) {
		case 0: // small fields, valid shape likely
			binary.BigEndian.PutUint64(digest, uint64(r.Range(0, 3)))
			for j := 8; j < min(len(digest), 12); j++ {
				digest[j] = byte(r.Intn(4))
			}
			if kind == "rnd" {
				copy(digest[10:], vkit.Pick(r, namespaces).Bytes())
			}
		case 1:
			if kind == "rnd" {
				copy(digest[10:], vkit.Pick(r, namespaces).Bytes())
			}
		}
		codec, mhc := spec.codec, spec.mhc
		op := "well-formed"
		switch r.Intn(10) {
		case 0:
			codec = c10Spec[kinds[(i+1)%4]].codec
			op = "foreign-codec"
		case 1:
			mhc = c10Spec[kinds[(i+1)%4]].mhc
			op = "foreign-mh"
		case 2:
			digest = digest[:len(digest)-1]
			op = "short-digest"
		case 3:
			digest = append(digest, 0)
			op = "long-digest"
		case 4:
			mhc = mh.SHA2_256
			op = "sha256-mh"
		}
		hsh, err := mh.Encode(digest, mhc)
		if err != nil {
			continue
		}
		ci := cid.NewCidV1(codec, hsh)
		run.Eval(1)
		run.Count("ids/from-cid/"+op, 1)
		var b bitswap.Block
		p, site := vkit.Recover(func() { b, err = bitswap.EmptyBlock(ci) })
		if p != nil {
			run.Violation("C10 EmptyBlock panics @"+site, map[string]any{"cid": ci.String(), "digest": fmt.Sprintf("%x", digest), "panic": fmt.Sprint(p)})
			continue
		}
		if err != nil {
			run.Count("ids/from-cid/refused", 1)
			continue
		}
		run.Count("ids/from-cid/accepted", 1)
		if op != "well-formed" {
			run.Violation("C10 EmptyBlock accepts a malformed CID ("+op+")", map[string]any{"cid": ci.String(), "digest": fmt.Sprintf("%x", digest)})
			continue
		}
		var back cid.Cid
		if p, site := vkit.Recover(func() { back = b.CID() }); p != nil {
			run.Violation("C10 CID() panics on an identifier decoded from a CID @"+site, map[string]any{"cid": ci.String(), "panic": fmt.Sprint(p)})
			continue
		}
		if !back.Equals(ci) {
			run.Violation("C10 "+kind+" CID→ID→CID is not the identity", map[string]any{"cid": ci.String(), "back": back.String(), "digest": fmt.Sprintf("%x", digest)})
		}
	}
	run.Extra("ids_distinct", len(k.byCid))
}
