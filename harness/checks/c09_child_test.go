package checks

import (
	"bufio"
	"context"
	"encoding/json"
	"fmt"
	"io"
	"os"
	"runtime"
	"sort"
	"strings"
	"sync"
	"sync/atomic"
	"testing"
	"time"

	logging "github.com/ipfs/go-log/v2"
	"github.com/libp2p/go-libp2p"
	"github.com/libp2p/go-libp2p/core/network"
	rcmgr "github.com/libp2p/go-libp2p/p2p/host/resource-manager"
	"github.com/libp2p/go-libp2p/p2p/security/noise"
	"github.com/libp2p/go-libp2p/p2p/transport/tcp"

	libshare "github.com/celestiaorg/go-square/v4/share"
	"github.com/celestiaorg/rsmt2d"

	"github.com/celestiaorg/celestia-node/share"
	"github.com/celestiaorg/celestia-node/share/eds"
	"github.com/celestiaorg/celestia-node/share/shwap"
	"github.com/celestiaorg/celestia-node/share/shwap/p2p/shrex"
	"github.com/celestiaorg/celestia-node/store"
	"github.com/celestiaorg/celestia-node/zz_verif/vkit"
)

// ---------------------------------------------------------------------------------------------
// The stored blocks: derived from the seed only, so the parent (reference) and the server child
// process (store) build the same list independently.

type c09block struct {
	h    uint64
	sq   *vkit.Square
	q4   bool // stored with Q4 (else ODS only)
	full bool // exhaustive requests
}

const c09emptyHeight = 50

func c09blocks() []c09block {
	rng := vkit.NewRNG(vkit.Seed(), "C09/blocks")
	type cs struct {
		w      int
		layout string
		tail   int
	}
	var list []cs
	// width 1: the only tail is 0
	list = append(list, cs{1, "single", 0}, cs{1, "reserved", 0})
	// width 2: every tail amount
	for p, l := range []string{"runs", "rowfill", "padded", "alldistinct"} {
		list = append(list, cs{2, l, p})
	}
	list = append(list, cs{2, "reserved", 0}, cs{2, "single", 1})
	// width 4
	list = append(list, cs{4, "runs", 0}, cs{4, "rowfill", 4}, cs{4, "padded", 5}, cs{4, "single", 0},
		cs{4, "reserved", 1}, cs{4, "alldistinct", 15}, cs{4, "runs", rng.Intn(16)})
	if vkit.Thorough() {
		for _, l := range vkit.Layouts {
			for _, p := range []int{0, 3, 4, 7, 12} {
				list = append(list, cs{4, l, p})
			}
		}
	}
	// sampled widths
	big := []int{8, 8, 16, 32}
	if vkit.Thorough() {
		big = []int{8, 8, 8, 8, 16, 16, 16, 32, 32, 64}
	}
	for _, w := range big {
		tails := []int{0, 1, w - 1, w, w + 1, w*w - w, w*w - 1, rng.Intn(w * w)}
		list = append(list, cs{w, vkit.Pick(rng, vkit.Layouts), vkit.Pick(rng, tails)})
	}
	out := make([]c09block, len(list)+1)
	var wg sync.WaitGroup
	for i, c := range list {
		wg.Add(1)
		go func(i int, c cs) {
			defer wg.Done()
			out[i] = c09block{h: uint64(100 + 2*i), sq: vkit.GenSquare(rng.SplitN("sq", i), c.w, c.layout, c.tail), q4: i%3 != 1, full: c.w <= 4}
		}(i, c)
	}
	wg.Wait()
	out[len(list)] = c09block{h: c09emptyHeight, sq: vkit.EmptySquare(), q4: true, full: true}
	return out
}

// ---------------------------------------------------------------------------------------------
// Counting AccessorGetter: what the server is handed. opened/closed are the observation points of
// "always release the block accessor".

type c09store struct {
	inner *store.Store

	mu         sync.Mutex
	opened     int64
	closed     int64 // accessors closed at least once
	closeCalls int64
	notFound   int64
	openErrs   int64
	live       map[*c09acc]struct{}
}

type c09acc struct {
	eds.AccessorStreamer
	st     *c09store
	height uint64
	closes atomic.Int32
}

// c09panicBase: a request for height c09panicBase+h is served from block h through an accessor whose
// every data method panics — an injected fault below the handler (a corrupt file, a bug in a response
// builder). What the server owes the client then is a refusal (status or stream reset), the accessor
// closed and the memory released.
const c09panicBase = 7_000_000

type c09panicAcc struct{ eds.AccessorStreamer }

func c09injected() { panic("c09: injected fault inside the block accessor") }

func (c09panicAcc) Sample(context.Context, shwap.SampleCoords) (shwap.Sample, error) {
	c09injected()
	return shwap.Sample{}, nil
}

func (c09panicAcc) AxisHalf(context.Context, rsmt2d.Axis, int) (shwap.AxisHalf, error) {
	c09injected()
	return shwap.AxisHalf{}, nil
}

// (RowNamespaceData is left alone: eds.NamespaceData calls it from goroutines of its own, outside the
// handler and therefore outside the server's panic recovery — a panic there is not a refusal of a
// request but a crash that no request of the property's classes can provoke; namespace-data requests
// meet the fault in AxisRoots, on the handler's goroutine.)
func (c09panicAcc) AxisRoots(context.Context) (*share.AxisRoots, error) {
	c09injected()
	return nil, nil
}

func (c09panicAcc) RangeNamespaceData(context.Context, int, int) (shwap.RangeNamespaceData, error) {
	c09injected()
	return shwap.RangeNamespaceData{}, nil
}

func (c09panicAcc) Shares(context.Context) ([]libshare.Share, error) {
	c09injected()
	return nil, nil
}

func (c09panicAcc) Reader() (io.Reader, error) {
	c09injected()
	return nil, nil
}

func (s *c09store) GetByHeight(ctx context.Context, height uint64) (eds.AccessorStreamer, error) {
	faulty := height >= c09panicBase
	if faulty {
		height -= c09panicBase
	}
	acc, err := s.inner.GetByHeight(ctx, height)
	if err == nil && faulty {
		acc = c09panicAcc{acc}
	}
	s.mu.Lock()
	defer s.mu.Unlock()
	if err != nil {
		if err == store.ErrNotFound { //nolint:errorlint
			s.notFound++
		} else {
			s.openErrs++
		}
		return nil, err
	}
	s.opened++
	a := &c09acc{AccessorStreamer: acc, st: s, height: height}
	s.live[a] = struct{}{}
	return a, nil
}

func (s *c09store) HasByHeight(ctx context.Context, height uint64) (bool, error) {
	if height >= c09panicBase {
		height -= c09panicBase
	}
	return s.inner.HasByHeight(ctx, height)
}

func (a *c09acc) Close() error {
	n := a.closes.Add(1)
	a.st.mu.Lock()
	a.st.closeCalls++
	if n == 1 {
		a.st.closed++
		delete(a.st.live, a)
	}
	a.st.mu.Unlock()
	return a.AccessorStreamer.Close()
}

// ---------------------------------------------------------------------------------------------
// Resource-manager ledger fed by the resource manager's own trace reporter interface (the same
// one a node uses for its metrics): explicit reservations and releases per stream scope.

type c09ledger struct {
	mu             sync.Mutex
	bal            map[string]int64 // per live stream scope: reserved - explicitly released
	reserves       int64
	reservedMax    int64
	svcMemMax      int64
	svcStreamsMax  int
	blockedMem     int64
	blockedStreams map[string]int64
	overRelease    []string
	overReleaseN   int64
}

func c09scopeClass(name string) string {
	switch {
	case strings.HasPrefix(name, "stream-"):
		return "stream"
	case strings.HasPrefix(name, "service:"+"shrex"+".peer:"):
		return "service-peer"
	case name == "service:shrex":
		return "service"
	case strings.HasPrefix(name, "protocol:") && strings.Contains(name, ".peer:"):
		return "protocol-peer"
	case strings.HasPrefix(name, "protocol:"):
		return "protocol"
	case strings.HasPrefix(name, "peer:"):
		return "peer"
	}
	return name
}

func (l *c09ledger) ConsumeEvent(e rcmgr.TraceEvt) {
	l.mu.Lock()
	defer l.mu.Unlock()
	switch e.Type {
	case rcmgr.TraceReserveMemoryEvt:
		if strings.HasPrefix(e.Name, "stream-") {
			l.bal[e.Name] += e.Delta
			l.reserves++
			if e.Delta > l.reservedMax {
				l.reservedMax = e.Delta
			}
		} else if e.Name == "service:shrex" && e.Memory > l.svcMemMax {
			l.svcMemMax = e.Memory
		}
	case rcmgr.TraceReleaseMemoryEvt:
		if strings.HasPrefix(e.Name, "stream-") {
			d := -e.Delta
			if d > l.bal[e.Name] {
				l.overReleaseN++
				if len(l.overRelease) < 4 {
					l.overRelease = append(l.overRelease, fmt.Sprintf("%s released %d bytes while holding %d", e.Name, d, l.bal[e.Name]))
				}
				l.bal[e.Name] = 0
			} else {
				l.bal[e.Name] -= d
			}
		}
	case rcmgr.TraceBlockReserveMemoryEvt:
		if strings.HasPrefix(e.Name, "stream-") {
			l.blockedMem++
		}
	case rcmgr.TraceBlockAddStreamEvt:
		l.blockedStreams[c09scopeClass(e.Name)]++
	case rcmgr.TraceAddStreamEvt:
		if e.Name == "service:shrex" && e.StreamsIn > l.svcStreamsMax {
			l.svcStreamsMax = e.StreamsIn
		}
	case rcmgr.TraceDestroyScopeEvt:
		delete(l.bal, e.Name)
	}
}

// c09stat is the child's answer to "stat".
type c09stat struct {
	Opened, Closed, CloseCalls, NotFound, OpenErrs int64
	LiveHeights                                    []uint64
	Handlers                                       int // goroutines inside a shrex stream handler
	Svc                                            network.ScopeStat
	Protos                                         map[string]network.ScopeStat
	Reserves, ReservedMax, SvcMemMax               int64
	SvcStreamsMax                                  int
	BlockedMem                                     int64
	BlockedStreams                                 map[string]int64
	OverRelease                                    []string
	OverReleaseN                                   int64
	LiveStreamScopesHoldingMemory                  int
	Panics                                         int64
	PanicSamples                                   []string
	// StreamsHandled / StreamsAbandoned: shrex streams whose handler returned, and those among them
	// that the handler left neither closed nor reset (observed around the handler, on the server)
	StreamsHandled, StreamsAbandoned int64
	AbandonedProtocols               []string
	Goroutines                       int
}

// c09held is what the server still holds: accessors not closed, memory and streams in the shrex
// service scope, streams (and memory) in the shrex protocol scopes.
type c09held struct {
	Accessors, SvcMemory, SvcStreams, ProtoStreams, ProtoMemory int64
}

func (s *c09stat) held() c09held {
	h := c09held{Accessors: s.Opened - s.Closed, SvcMemory: s.Svc.Memory, SvcStreams: int64(s.Svc.NumStreamsInbound + s.Svc.NumStreamsOutbound)}
	for _, p := range s.Protos {
		h.ProtoStreams += int64(p.NumStreamsInbound)
		h.ProtoMemory += p.Memory
	}
	return h
}

func (s *c09stat) brief() map[string]any {
	return map[string]any{"opened": s.Opened, "closed": s.Closed, "live_heights": s.LiveHeights, "handlers": s.Handlers,
		"service_scope": s.Svc, "protocol_scopes": s.Protos, "stream_scopes_holding_memory": s.LiveStreamScopesHoldingMemory}
}

func c09handlersAlive() (int, int) {
	buf := make([]byte, 1<<20)
	for {
		n := runtime.Stack(buf, true)
		if n < len(buf) {
			buf = buf[:n]
			break
		}
		buf = make([]byte, 2*len(buf))
	}
	gs := strings.Split(string(buf), "\n\n")
	n := 0
	for _, g := range gs {
		// inside a shrex handler, or an inbound stream still being negotiated / dispatched by the host
		if strings.Contains(g, "shrex.(*Server).streamHandler") || strings.Contains(g, "shrex.RecoveryMiddleware") ||
			strings.Contains(g, "BasicHost).newStreamHandler") {
			n++
		}
	}
	return n, len(gs)
}

// c09child is the server process: real store, real host with the bridge node's resource limits,
// real shrex.Server. Control: lines on stdin ("stat", "quit"), answers on stdout.
func c09child(t *testing.T) {
	dir := os.Getenv("C09_CHILD")
	ctx := context.Background()
	say := func(tag string, v any) {
		b, _ := json.Marshal(v)
		fmt.Fprintf(os.Stdout, "C09>%s %s\n", tag, b)
	}
	fail := func(what string, err error) {
		say("FAIL", fmt.Sprintf("%s: %v", what, err))
		os.Exit(3)
	}

	// recovered handler panics are only visible in the log
	var panics atomic.Int64
	var pmu sync.Mutex
	var psamples []string
	pr := logging.NewPipeReader(logging.PipeLevel(logging.LevelError))
	go func() {
		sc := bufio.NewScanner(pr)
		sc.Buffer(make([]byte, 1<<20), 1<<24)
		for sc.Scan() {
			if l := sc.Text(); strings.Contains(l, "PANIC while handling request") {
				panics.Add(1)
				pmu.Lock()
				if len(psamples) < 4 {
					if len(l) > 400 {
						l = l[:400]
					}
					psamples = append(psamples, l)
				}
				pmu.Unlock()
			}
		}
	}()

	st, err := store.NewStore(store.DefaultParameters(), dir)
	if err != nil {
		fail("store", err)
	}
	for _, b := range c09blocks() {
		if b.q4 {
			err = st.PutODSQ4(ctx, b.sq.Roots, b.h, b.sq.EDS)
		} else {
			err = st.PutODS(ctx, b.sq.Roots, b.h, b.sq.EDS)
		}
		if err != nil {
			fail("put", err)
		}
	}
	cs := &c09store{inner: st, live: map[*c09acc]struct{}{}}

	// the bridge node's limits (nodebuilder/p2p.bridgeResources)
	ledger := &c09ledger{bal: map[string]int64{}, blockedStreams: map[string]int64{}}
	limits := rcmgr.DefaultLimits
	libp2p.SetDefaultServiceLimits(&limits)
	shrex.SetResourceLimits(&limits, c09net)
	rm, err := rcmgr.NewResourceManager(rcmgr.NewFixedLimiter(limits.AutoScale()), rcmgr.WithTraceReporter(ledger))
	if err != nil {
		fail("rcmgr", err)
	}
	h, err := libp2p.New(
		libp2p.ListenAddrStrings("/ip4/0.0.0.0/tcp/0"),
		libp2p.Transport(tcp.NewTCPTransport),
		libp2p.Security(noise.ID, noise.New),
		libp2p.ResourceManager(rm),
		libp2p.DisableRelay(),
		libp2p.DisableMetrics(),
	)
	if err != nil {
		fail("host", err)
	}
	params := shrex.DefaultServerParameters()
	params.WithNetworkID(c09net)
	// The write / handling timers are the server's own wall-clock watchdogs; they are set far above
	// anything a loaded machine can need, so that load cannot turn into "truncated reply". The read
	// timeout stays at its default: its firing is the refusal of a stalled request, which the
	// monitor waits for.
	params.WriteTimeout = 15 * time.Minute
	params.HandleRequestTimeout = 15 * time.Minute
	var handled, abandoned atomic.Int64
	var amu sync.Mutex
	var aprotos []string
	tap := &vkit.TapHost{Host: h, OnDone: func(rep vkit.TapReport) {
		handled.Add(1)
		if !rep.Closed && !rep.Reset {
			abandoned.Add(1)
			amu.Lock()
			if len(aprotos) < 8 {
				aprotos = append(aprotos, string(rep.Protocol))
			}
			amu.Unlock()
		}
	}}
	srv, err := shrex.NewServer(params, tap, cs)
	if err != nil {
		fail("server", err)
	}
	if err := srv.Start(ctx); err != nil {
		fail("start", err)
	}
	var addrs []string
	ifaddrs, _ := h.Network().InterfaceListenAddresses()
	for _, a := range ifaddrs {
		addrs = append(addrs, a.String())
	}
	say("READY", map[string]any{"id": h.ID().String(), "addrs": addrs})

	in := bufio.NewScanner(os.Stdin)
	for in.Scan() {
		switch strings.TrimSpace(in.Text()) {
		case "stat":
			var s c09stat
			s.Handlers, s.Goroutines = c09handlersAlive()
			cs.mu.Lock()
			s.Opened, s.Closed, s.CloseCalls, s.NotFound, s.OpenErrs = cs.opened, cs.closed, cs.closeCalls, cs.notFound, cs.openErrs
			for a := range cs.live {
				s.LiveHeights = append(s.LiveHeights, a.height)
			}
			sort.Slice(s.LiveHeights, func(i, j int) bool { return s.LiveHeights[i] < s.LiveHeights[j] })
			if len(s.LiveHeights) > 8 {
				s.LiveHeights = s.LiveHeights[:8]
			}
			cs.mu.Unlock()
			_ = rm.ViewService("shrex", func(sc network.ServiceScope) error { s.Svc = sc.Stat(); return nil })
			s.Protos = map[string]network.ScopeStat{}
			for _, p := range c09protos {
				_ = rm.ViewProtocol(shrex.ProtocolID(c09net, p), func(sc network.ProtocolScope) error { s.Protos[p] = sc.Stat(); return nil })
			}
			ledger.mu.Lock()
			s.Reserves, s.ReservedMax, s.SvcMemMax, s.SvcStreamsMax = ledger.reserves, ledger.reservedMax, ledger.svcMemMax, ledger.svcStreamsMax
			s.BlockedMem = ledger.blockedMem
			s.BlockedStreams = map[string]int64{}
			for k, v := range ledger.blockedStreams {
				s.BlockedStreams[k] = v
			}
			s.OverRelease = append([]string(nil), ledger.overRelease...)
			s.OverReleaseN = ledger.overReleaseN
			for _, v := range ledger.bal {
				if v != 0 {
					s.LiveStreamScopesHoldingMemory++
				}
			}
			ledger.mu.Unlock()
			s.Panics = panics.Load()
			s.StreamsHandled, s.StreamsAbandoned = handled.Load(), abandoned.Load()
			amu.Lock()
			s.AbandonedProtocols = append([]string(nil), aprotos...)
			amu.Unlock()
			pmu.Lock()
			s.PanicSamples = append([]string(nil), psamples...)
			pmu.Unlock()
			say("STAT", &s)
		case "quit":
			_ = srv.Stop(ctx)
			_ = h.Close()
			_ = st.Stop(ctx)
			say("BYE", "ok")
			return
		}
	}
	// parent went away
	os.Exit(0)
}
