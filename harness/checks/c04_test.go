package checks

import (
	"testing"

	"github.com/celestiaorg/celestia-node/zz_verif/vkit"
)

// C04 — the DASer never loses a block height, including across restarts.
//
// Oracles (all black box: SamplingStats, persisted checkpoint JSON, sampler success log S):
//  1. live no-loss: at every SamplingStats snapshot every h in [start, NetworkHead] is in S (read
//     after the call returned) or h > CatchupHead (queued) or h in Failed or inside [Curr, To] of a
//     listed worker;
//  2. head soundness: every h in [start, SampledChainHead] is in S;
//  3. checkpoint coverage: for every checkpoint that reaches the datastore, every
//     h in [start, cp.network_head] not in S when the Put begins is >= sample_from, or a key of
//     failed, or inside a worker range;
//  4. resumption: a fresh DASer over a datastore holding only that checkpoint (crash image = last
//     value put; graceful = value after Stop), with an all-success sampler, samples every height that
//     was not in S when the checkpoint was written before it becomes quiescent.
//
// Heights skipped as outside the sampling window are logged into S. "start" is the header-store
// tail at the first start, raised to the tail found at a later Start (the DASer clamps to it).
// Heights that a checkpoint was already reported to lose are not reported again by (1)/(2)
// after the restart from that checkpoint (counted, not hidden: the (3)/(4) violation stands).
func TestC04(t *testing.T) {
	run := vkit.NewRun(t, "C04", "exploration",
		"cases = PRNG schedules (sampling range x concurrency limit x fault profile x <=200 events of announce/release/poll/"+
			"sleep/tail/restart(graceful|crash|crash-after-first-stop-checkpoint)) on the real DASer; evaluations = judged "+
			"snapshots + judged checkpoint Puts + resumption probes; distinct = distinct abstract coordinator states at a "+
			"snapshot / shapes of persisted checkpoints / resume situations; non-trivial = produced by the real DASer under a schedule")
	defer run.Finish()
	c04RunAll(t, run, c04ModeC04, "C04")
	run.Require("schedules", vkit.Scale(300, 5000))
	run.Require("snapshot/total", 3000)
	run.Require("snapshot/with_newest_head_worker", 50)
	run.Require("snapshot/with_failed", 100)
	run.Require("snapshot/head_soundness_nontrivial", 500)
	run.Require("put/total", 300)
	run.Require("put/while_newest_head_in_flight", 10)
	run.Require("put/with_workers", 20)
	run.Require("put/with_failed", 20)
	run.Require("resume/probes", 200)
	run.Require("kill/crash", 20)
	run.Require("kill/graceful", 20)
	run.Require("kill/stop-crash", 5)
	run.Require("drain/completed", 50)
	run.Assume("sampler, header store, subscription and datastore are mocks obeying the interface contracts; a crash is modelled as: nothing the old instance does after the crash instant reaches S or the datastore")
	run.Assume("heights below the header-store tail at a (re)start are outside the DASer's starting point")
}
