package checks

import (
	"bytes"
	"fmt"
	"math/big"

	core "github.com/cometbft/cometbft/types"

	libhead "github.com/celestiaorg/go-header"

	"github.com/celestiaorg/celestia-node/zz_verif/vkit"
)

// Verification against a trusted header.

type c16vmut struct {
	op    string
	apply func(u *c16hdr)
}

// c16verifyMuts builds the operators applied to the untrusted header u of the pair (t, u).
func c16verifyMuts(r *vkit.RNG, t, u, far *c16hdr) []c16vmut {
	var out []c16vmut
	add := func(op string, f func(u *c16hdr)) { out = append(out, c16vmut{op, f}) }
	add("ValidatorsHash/bitflip", func(u *c16hdr) { u.ValidatorsHash = c16flip(r.Split("vh"), u.ValidatorsHash) })
	add("ValidatorsHash/empty", func(u *c16hdr) { u.ValidatorsHash = nil })
	add("ValidatorsHash/=trusted.ValidatorsHash", func(u *c16hdr) { u.ValidatorsHash = c16cpb(t.ValidatorsHash) })
	add("ValidatorsHash/=trusted.NextValidatorsHash", func(u *c16hdr) { u.ValidatorsHash = c16cpb(t.NextValidatorsHash) })
	add("LastBlockID.Hash/bitflip", func(u *c16hdr) { u.LastBlockID.Hash = c16flip(r.Split("lb"), u.LastBlockID.Hash) })
	add("LastBlockID.Hash/empty", func(u *c16hdr) { u.LastBlockID.Hash = nil })
	add("LastBlockID.Hash/=trusted.LastBlockID.Hash", func(u *c16hdr) { u.LastBlockID.Hash = c16cpb(t.LastBlockID.Hash) })
	add("LastBlockID.Hash/=own-hash", func(u *c16hdr) {
		if u.Commit != nil {
			u.LastBlockID.Hash = c16cpb(u.Commit.BlockID.Hash)
		}
	})
	add("LastBlockID.Hash/=trusted.DataHash", func(u *c16hdr) { u.LastBlockID.Hash = c16cpb(t.DataHash) })
	add("LastBlockID.PartSetHeader/changed", func(u *c16hdr) { u.LastBlockID.PartSetHeader.Total++ })
	add("Height/=trusted+1", func(u *c16hdr) { u.RawHeader.Height = t.RawHeader.Height + 1 })
	add("Height/=trusted+2", func(u *c16hdr) { u.RawHeader.Height = t.RawHeader.Height + 2 })
	add("Height/=trusted", func(u *c16hdr) { u.RawHeader.Height = t.RawHeader.Height })
	add("ChainID/changed", func(u *c16hdr) { u.RawHeader.ChainID += "x" })
	if far != nil {
		add("ValidatorsHash/from-other-header", func(u *c16hdr) { u.ValidatorsHash = c16cpb(far.ValidatorsHash) })
		add("LastBlockID.Hash/from-other-header", func(u *c16hdr) { u.LastBlockID.Hash = c16cpb(far.LastBlockID.Hash) })
		add("commit/from-other-header", func(u *c16hdr) { u.Commit = c16cloneCommit(far.Commit) })
		add("commit/signatures-from-other-header", func(u *c16hdr) {
			if u.Commit != nil && far.Commit != nil {
				u.Commit.Signatures = c16cloneCommit(far.Commit).Signatures
			}
		})
	}
	cm := func(op string, f func(c *core.Commit)) {
		add("commit/"+op, func(u *c16hdr) {
			if u.Commit != nil {
				f(u.Commit)
			}
		})
	}
	cm("round+1", func(c *core.Commit) { c.Round++ })
	cm("height+1", func(c *core.Commit) { c.Height++ })
	cm("blockid-hash-bitflip", func(c *core.Commit) { c.BlockID.Hash = c16flip(r.Split("bid"), c.BlockID.Hash) })
	cm("blockid-psh-changed", func(c *core.Commit) { c.BlockID.PartSetHeader.Total++ })
	cm("all-signatures-bitflip", func(c *core.Commit) {
		for i := range c.Signatures {
			if len(c.Signatures[i].Signature) > 0 {
				c.Signatures[i].Signature = c16flip(r.SplitN("s", i), c.Signatures[i].Signature)
			}
		}
	})
	cm("first-signature-bitflip", func(c *core.Commit) {
		for i := range c.Signatures {
			if c.Signatures[i].BlockIDFlag == core.BlockIDFlagCommit {
				c.Signatures[i].Signature = c16flip(r.Split("s0"), c.Signatures[i].Signature)
				return
			}
		}
	})
	cm("all-timestamps+1ns", func(c *core.Commit) {
		for i := range c.Signatures {
			if c.Signatures[i].BlockIDFlag == core.BlockIDFlagCommit {
				c.Signatures[i].Timestamp = c.Signatures[i].Timestamp.Add(1)
			}
		}
	})
	cm("all-flags->nil", func(c *core.Commit) {
		for i := range c.Signatures {
			if c.Signatures[i].BlockIDFlag == core.BlockIDFlagCommit {
				c.Signatures[i].BlockIDFlag = core.BlockIDFlagNil
			}
		}
	})
	cm("all-absent", func(c *core.Commit) {
		for i := range c.Signatures {
			c16makeAbsent(&c.Signatures[i])
		}
	})
	cm("no-signatures", func(c *core.Commit) { c.Signatures = nil })
	cm("duplicate-first-signature", func(c *core.Commit) {
		if len(c.Signatures) > 0 {
			c.Signatures = append(c.Signatures, c16cloneCommit(c).Signatures[0])
		}
	})
	cm("addresses-rotated", func(c *core.Commit) {
		if n := len(c.Signatures); n > 1 {
			first := c.Signatures[0].ValidatorAddress
			for i := 0; i+1 < n; i++ {
				c.Signatures[i].ValidatorAddress = c.Signatures[i+1].ValidatorAddress
			}
			c.Signatures[n-1].ValidatorAddress = first
		}
	})
	// signatures of validators unknown to the trusted set re-labelled with trusted addresses
	cm("unknown-signers-relabelled-as-trusted", func(c *core.Commit) {
		if t.ValidatorSet == nil {
			return
		}
		known := map[string]bool{}
		for _, v := range t.ValidatorSet.Validators {
			known[string(v.Address)] = true
		}
		used := map[string]bool{}
		for _, s := range c.Signatures {
			used[string(s.ValidatorAddress)] = true
		}
		var free [][]byte
		for _, v := range t.ValidatorSet.Validators {
			if !used[string(v.Address)] {
				free = append(free, v.Address)
			}
		}
		for i := range c.Signatures {
			if c.Signatures[i].BlockIDFlag == core.BlockIDFlagCommit && !known[string(c.Signatures[i].ValidatorAddress)] && len(free) > 0 {
				c.Signatures[i].ValidatorAddress = c16cpb(free[0])
				free = free[1:]
			}
		}
	})
	add("commit/nil", func(u *c16hdr) { u.Commit = nil })

	// thresholds in terms of the trusted set's power
	if t.ValidatorSet != nil && u.Commit != nil {
		power := map[string]int64{}
		var total int64
		for _, v := range t.ValidatorSet.Validators {
			power[string(v.Address)] = v.VotingPower
			total += v.VotingPower
		}
		var w []int64
		var pos []int
		for i, s := range u.Commit.Signatures {
			if p, ok := power[string(s.ValidatorAddress)]; ok && s.BlockIDFlag == core.BlockIDFlagCommit {
				w = append(w, p)
				pos = append(pos, i)
			}
		}
		below, above, _, _ := c16subsets(w, total, 1, 3)
		keep := func(ix []int, nilFlag bool) func(c *core.Commit) {
			k := make([]int, len(ix))
			for a, i := range ix {
				k[a] = pos[i]
			}
			return func(c *core.Commit) { c16keepOnly(c, k, nilFlag) }
		}
		if below != nil && len(w) > 0 {
			cm("threshold/at-or-below-1/3/rest-absent", keep(below, false))
			cm("threshold/at-or-below-1/3/rest-nil-flag", keep(below, true))
		}
		if above != nil {
			cm("threshold/min-above-1/3/rest-absent", keep(above, false))
		}
	}
	return out
}

func (c *c16) wireCopy(h *c16hdr) *c16hdr {
	var b []byte
	var err error
	if p, _ := vkit.Recover(func() { b, err = h.MarshalBinary() }); p != nil || err != nil {
		return nil
	}
	d := new(c16hdr)
	if p, _ := vkit.Recover(func() { err = d.UnmarshalBinary(b) }); p != nil || err != nil {
		return nil
	}
	return d
}

// verifyOne applies the Verify oracle to the pair (t, u) in one representation.
func (c *c16) verifyOne(ctx, form, op string, t, u *c16hdr, honest bool) {
	adjacent := uint64(t.RawHeader.Height)+1 == uint64(u.RawHeader.Height)
	kind := "non-adjacent"
	if adjacent {
		kind = "adjacent"
	}
	tally, total, known := c16trustTally(t, u)
	links := bytes.Equal(u.ValidatorsHash, t.NextValidatorsHash) && bytes.Equal(u.LastBlockID.Hash, c16headerHash(&t.RawHeader))
	enough := new(big.Int).Mul(tally, big.NewInt(3)).Cmp(total) >= 0 && total.Sign() > 0
	strictly := new(big.Int).Mul(tally, big.NewInt(3)).Cmp(total) > 0
	cls := "mutants"
	if honest {
		cls = "honest"
	}
	thr := ""
	if i := len("commit/threshold/"); len(op) > i && op[:i] == "commit/threshold/" {
		rest := op[i:]
		for k := len(rest) - 1; k >= 0; k-- {
			if rest[k] == '/' {
				thr = "verify/threshold/" + rest[:k]
				break
			}
		}
	}
	for _, entry := range []string{"ExtendedHeader.Verify", "go-header.Verify"} {
		tt, uu := c16clone(t), c16clone(u)
		if form == "wire" {
			// clones lose the decoder's cached flags: decode again instead
			if tt = c.wireCopy(t); tt == nil {
				return
			}
			if uu = c.wireCopy(u); uu == nil {
				return
			}
		}
		var err error
		p, site := vkit.Recover(func() {
			if entry == "go-header.Verify" {
				err = libhead.Verify(tt, uu)
			} else {
				err = tt.Verify(uu)
			}
		})
		c.run.Eval(1)
		c.run.Count("verify/"+cls+"/tried", 1)
		if thr != "" && entry == "ExtendedHeader.Verify" {
			c.run.Count(thr+"/tried", 1)
		}
		c.run.Distinct(ctx + "|" + form + "|" + entry + "|" + op)
		wit := func() map[string]any {
			return c.witness(ctx, "verify/"+op, u, map[string]any{"entry": entry, "form": form, "kind": kind,
				"trusted_height": t.RawHeader.Height, "untrusted_height": u.RawHeader.Height, "links": links,
				"trusted_power_signed": tally.String(), "trusted_power_total": total.String()})
		}
		if p != nil {
			c.panicAt(form == "wire", entry, site, fmt.Sprint(p), ctx, "verify/"+op, u, nil)
			continue
		}
		if err != nil {
			c.run.Count("verify/"+kind+"/"+cls+"/rejected", 1)
			if honest && !adjacent && known && !strictly && entry == "ExtendedHeader.Verify" && u.RawHeader.Height > t.RawHeader.Height {
				c.run.Count("verify/non-adjacent/honest/rejected-insufficient-overlap", 1)
			}
			// completeness on honest pairs: ascending heights of the same chain
			if honest && u.RawHeader.Height > t.RawHeader.Height && (adjacent || (known && strictly)) {
				c.run.Violation("C16 Verify rejects an honest "+kind+" header ("+entry+")", func() map[string]any {
					w := wit()
					w["error"] = err.Error()
					return w
				}())
			}
			continue
		}
		c.run.Count("verify/"+kind+"/"+cls+"/accepted", 1)
		if thr != "" && entry == "ExtendedHeader.Verify" {
			c.run.Count(thr+"/accepted", 1)
		}
		switch {
		case adjacent && !links:
			c.run.Violation("C16 Verify accepts an adjacent header that does not link to the trusted one ("+entry+") op="+c16opClass(op), wit())
		case !adjacent && known && !enough:
			c.run.Violation("C16 Verify accepts a non-adjacent header signed by less than 1/3 of the trusted power ("+entry+") op="+c16opClass(op), wit())
		case !adjacent && !known:
			c.run.Count("model/not-applicable", 1)
		}
	}
}

// c16opClass strips positional parameters from an operator name (kept out of signatures).
func c16opClass(op string) string { return op }

// pairs: every ordered pair of the chain within distance 6, honest and mutated.
func (c *c16) pairs(r *vkit.RNG, ch *c16chain) {
	n := len(ch.hdrs)
	for i := 0; i < n; i++ {
		for j := 0; j < n; j++ {
			if i == j || j-i > 6 || i-j > 2 {
				continue
			}
			t, u := ch.hdrs[i], ch.hdrs[j]
			ctx := fmt.Sprintf("%s trusted#%d untrusted#%d", ch.desc, i, j)
			for _, form := range []string{"value", "wire"} {
				c.verifyOne(ctx, form, "honest", t, u, true)
			}
			if j < i && !vkit.Thorough() {
				continue
			}
			far := ch.hdrs[(j+2)%n]
			if far == u || far == t {
				far = nil
			}
			for k, vm := range c16verifyMuts(r.SplitN("vm", i*n+j), t, u, far) {
				m := c16clone(u)
				if p, site := vkit.Recover(func() { vm.apply(m) }); p != nil {
					c.run.Inconclusive(fmt.Sprintf("verify mutator %s panicked at %s: %v", vm.op, site, p))
					continue
				}
				// alternate representations to bound the cost; thresholds always both
				forms := []string{"value", "wire"}
				if thrOp := len(vm.op) > 16 && vm.op[:17] == "commit/threshold/"; !thrOp && !vkit.Thorough() {
					forms = forms[(k+i+j)%2 : (k+i+j)%2+1]
				}
				for _, form := range forms {
					c.verifyOne(ctx, form, vm.op, t, m, false)
				}
			}
		}
	}
}
