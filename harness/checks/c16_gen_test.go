package checks

import (
	"crypto/sha256"
	"fmt"
	"time"

	cmted "github.com/cometbft/cometbft/crypto/ed25519"
	cmtproto "github.com/cometbft/cometbft/proto/tendermint/types"
	cmtversion "github.com/cometbft/cometbft/proto/tendermint/version"
	core "github.com/cometbft/cometbft/types"

	"github.com/celestiaorg/celestia-app/v9/pkg/appconsts"
	"github.com/celestiaorg/celestia-app/v9/pkg/da"

	"github.com/celestiaorg/celestia-node/zz_verif/vkit"
)

// Generator of honest header chains with deterministic keys, unequal voting powers and validator
// set changes between heights (headertest.TestSuite can do neither).

type c16key struct {
	priv cmted.PrivKey
	pub  cmted.PubKey
}

type c16set struct {
	vs   *core.ValidatorSet
	keys []c16key // aligned with vs.Validators
}

type c16chain struct {
	desc string
	hdrs []*c16hdr
}

type c16pool struct {
	r    *vkit.RNG
	keys []c16key
	next int
}

func (p *c16pool) fresh() c16key {
	priv := cmted.GenPrivKeyFromSecret(p.r.Bytes(32))
	k := c16key{priv: priv, pub: priv.PubKey().(cmted.PubKey)}
	p.keys = append(p.keys, k)
	return k
}

func c16newSet(keys []c16key, powers []int64) *c16set {
	valz := make([]*core.Validator, len(keys))
	byAddr := map[string]c16key{}
	for i, k := range keys {
		valz[i] = core.NewValidator(k.pub, powers[i])
		byAddr[string(valz[i].Address)] = k
	}
	vs := core.NewValidatorSet(valz)
	s := &c16set{vs: vs}
	for _, v := range vs.Validators {
		s.keys = append(s.keys, byAddr[string(v.Address)])
	}
	return s
}

func c16powers(r *vkit.RNG, n int, profile string) []int64 {
	p := make([]int64, n)
	switch profile {
	case "ones":
		for i := range p {
			p[i] = 1
		}
	case "unequal":
		for i := range p {
			p[i] = int64(r.Range(1, 100))
		}
	case "dominant": // one validator holds 3/4
		var s int64
		for i := 1; i < n; i++ {
			p[i] = int64(r.Range(1, 10))
			s += p[i]
		}
		if s == 0 {
			s = 1
		}
		p[0] = 3 * s
	case "third": // one validator holds exactly 1/3
		var s int64
		for i := 1; i < n; i++ {
			p[i] = int64(2 * r.Range(1, 20))
			s += p[i]
		}
		if s == 0 {
			s = 2
		}
		p[0] = s / 2
	case "huge": // total at the allowed maximum
		each := core.MaxTotalVotingPower / int64(n)
		for i := range p {
			p[i] = each
		}
	default: // equal
		for i := range p {
			p[i] = 10
		}
	}
	return p
}

func (s *c16set) members() ([]c16key, []int64) {
	keys := append([]c16key{}, s.keys...)
	pw := make([]int64, len(keys))
	for i, v := range s.vs.Validators {
		pw[i] = v.VotingPower
	}
	return keys, pw
}

func c16evolve(r *vkit.RNG, pool *c16pool, s *c16set, profile string) (*c16set, string) {
	keys, pw := s.members()
	n := len(keys)
	choice := r.Intn(7)
	if profile == "huge" && choice != 6 {
		choice = 0
	}
	switch choice {
	case 2:
		i := r.Intn(n)
		pw[i] += int64(r.Range(1, 20))
		return c16newSet(keys, pw), "power+"
	case 3:
		keys = append(keys, pool.fresh())
		pw = append(pw, pw[r.Intn(n)])
		return c16newSet(keys, pw), "add"
	case 4:
		if n > 1 {
			i := r.Intn(n)
			keys = append(keys[:i], keys[i+1:]...)
			pw = append(pw[:i], pw[i+1:]...)
			return c16newSet(keys, pw), "remove"
		}
	case 5, 6: // rotate most of the power to new keys
		k := (n*7 + 9) / 10
		if choice == 6 {
			k = (n + 1) / 2
		}
		for _, i := range r.Perm(n)[:k] {
			keys[i] = pool.fresh()
		}
		return c16newSet(keys, pw), fmt.Sprintf("rotate%d", k)
	}
	return s, "same"
}

func c16freshDAH(r *vkit.RNG) *da.DataAvailabilityHeader {
	var sq *vkit.Square
	switch r.Intn(6) {
	case 0:
		sq = vkit.EmptySquare()
	case 1, 2:
		sq = vkit.GenSquare(r, 1, vkit.Pick(r, vkit.Layouts), 0)
	case 3, 4:
		sq = vkit.GenSquare(r, 2, vkit.Pick(r, vkit.Layouts), r.Intn(3))
	default:
		sq = vkit.GenSquare(r, 4, vkit.Pick(r, vkit.Layouts), r.Intn(8))
	}
	return &da.DataAvailabilityHeader{RowRoots: c16cpbs(sq.Roots.RowRoots), ColumnRoots: c16cpbs(sq.Roots.ColumnRoots)}
}

// c16sign builds the commit of raw by set. mode[i]: 0 commit vote, 1 absent, 2 nil vote.
func c16sign(raw *core.Header, set *c16set, bid core.BlockID, round int32, mode []int) *core.Commit {
	sigs := make([]core.CommitSig, len(set.keys))
	for i, k := range set.keys {
		if mode != nil && mode[i] == 1 {
			sigs[i] = core.NewCommitSigAbsent()
			continue
		}
		v := &core.Vote{
			Type:             cmtproto.PrecommitType,
			Height:           raw.Height,
			Round:            round,
			BlockID:          bid,
			Timestamp:        raw.Time.Add(time.Duration(i+1) * time.Millisecond),
			ValidatorAddress: set.vs.Validators[i].Address,
			ValidatorIndex:   int32(i),
		}
		flag := core.BlockIDFlagCommit
		if mode != nil && mode[i] == 2 {
			v.BlockID = core.BlockID{}
			flag = core.BlockIDFlagNil
		}
		sig, err := k.priv.Sign(core.VoteSignBytes(raw.ChainID, v.ToProto()))
		if err != nil {
			panic(err)
		}
		sigs[i] = core.CommitSig{BlockIDFlag: flag, ValidatorAddress: c16cpb(v.ValidatorAddress), Timestamp: v.Timestamp, Signature: sig}
	}
	return &core.Commit{Height: raw.Height, Round: round, BlockID: c16cloneBlockID(bid), Signatures: sigs}
}

var c16baseTime = time.Date(2024, 3, 1, 12, 0, 0, 0, time.UTC)

func c16genChain(r *vkit.RNG, n, nvals int, profile string) *c16chain {
	pool := &c16pool{r: r.Split("keys")}
	keys := make([]c16key, nvals)
	for i := range keys {
		keys[i] = pool.fresh()
	}
	sets := []*c16set{c16newSet(keys, c16powers(r, nvals, profile))}
	evo := ""
	for i := 1; i <= n; i++ {
		s, what := c16evolve(r, pool, sets[i-1], profile)
		sets = append(sets, s)
		evo += what[:1]
	}
	chainID := fmt.Sprintf("c16-%s-%d", profile, nvals)
	base := int64(r.Range(1, 1_000_000))
	if r.Chance(1, 4) {
		base = 1
	}
	ch := &c16chain{desc: fmt.Sprintf("chain=%s vals=%d profile=%s evolution=%s base=%d", chainID, nvals, profile, evo, base)}
	empty := sha256.Sum256(nil)
	var prev *c16hdr
	for i := 0; i < n; i++ {
		dah := c16freshDAH(r)
		set := sets[i]
		raw := core.Header{
			Version:            cmtversion.Consensus{Block: 11, App: uint64(r.Range(1, int(appconsts.Version)))},
			ChainID:            chainID,
			Height:             base + int64(i),
			Time:               c16baseTime.Add(time.Duration(i)*6*time.Second + time.Duration(r.Intn(1_000_000_000))),
			LastBlockID:        core.BlockID{Hash: r.Bytes(32), PartSetHeader: core.PartSetHeader{Total: uint32(r.Range(1, 9)), Hash: r.Bytes(32)}},
			LastCommitHash:     r.Bytes(32),
			DataHash:           c16cloneDAH(dah).Hash(),
			ValidatorsHash:     set.vs.Hash(),
			NextValidatorsHash: sets[i+1].vs.Hash(),
			ConsensusHash:      r.Bytes(32),
			AppHash:            r.Bytes(r.Range(20, 32)),
			LastResultsHash:    r.Bytes(32),
			EvidenceHash:       empty[:],
			ProposerAddress:    c16cpb(set.vs.Validators[r.Intn(len(set.vs.Validators))].Address),
		}
		if prev != nil {
			raw.LastBlockID = c16cloneBlockID(prev.Commit.BlockID)
			raw.LastCommitHash = c16cloneCommit(prev.Commit).Hash()
		}
		bid := core.BlockID{Hash: raw.Hash(), PartSetHeader: core.PartSetHeader{Total: uint32(r.Range(1, 5)), Hash: r.Bytes(32)}}
		// most headers are signed by everyone; some carry absent / nil votes while staying > 2/3
		var mode []int
		if r.Chance(1, 3) && len(set.keys) >= 4 {
			mode = make([]int, len(set.keys))
			var total, off int64
			for _, v := range set.vs.Validators {
				total += v.VotingPower
			}
			for _, j := range r.Perm(len(set.keys)) {
				p := set.vs.Validators[j].VotingPower
				if 3*(total-off-p) > 2*total && r.Bool() {
					mode[j] = 1 + r.Intn(2)
					off += p
				}
			}
		}
		h := &c16hdr{RawHeader: raw, Commit: c16sign(&raw, set, bid, int32(r.Intn(3)), mode), ValidatorSet: c16cloneVals(set.vs), DAH: dah}
		ch.hdrs = append(ch.hdrs, h)
		prev = h
	}
	return ch
}
