package checks

import (
	"testing"

	"github.com/celestiaorg/celestia-node/zz_verif/vkit"
)

// C13 — the DASer makes progress and stays within its configured bounds.
//
// Same harness and schedules as C04 (c04_harness_test.go, c04_engine_test.go) plus sampler errors
// that wrap context.Canceled while the DASer keeps running, and restarts with another limit.
// Oracles:
//
//	(e) at every snapshot #catchup+#retry workers <= L and #workers <= 2L; live sampler calls <= 2L;
//	(f) CatchUpDone <=> no workers, Failed empty, CatchupHead >= NetworkHead (the snapshot is taken
//	    with the coordinator parked, so this is not a transient); WaitCatchUp(cancelled ctx) == nil
//	    iff done, checked only when no announced head is pending; a blocking WaitCatchUp started in
//	    the drain returns once a snapshot reports done;
//	(g) every job reports: after faults stop and all sampler calls returned the worker list drains;
//	    a stuck drain is confirmed by the stable-state oracle (unchanging goroutine dump, nothing
//	    runnable) after all schedules ended;
//	(h) attempt count of a height that stays failed (no success in between) never decreases;
//	(i) a retry starts no earlier than its back-off interval after the failing call returned;
//	(j) bounded progress: after faults stop at most 4*(heights+10) further sampler calls;
//	(k) when done, SampledChainHead == NetworkHead and every known height is in S.
func TestC13(t *testing.T) {
	run := vkit.NewRun(t, "C13", "exploration",
		"cases = PRNG schedules as in C04 plus cancel-looking sampler errors and restarts with a different concurrency limit; "+
			"evaluations = judged snapshots + WaitCatchUp checks + back-off checks; distinct = distinct abstract coordinator "+
			"states at a snapshot (range, limit, workers by type, failed, done, queue gap, blocked calls, lifetime)")
	defer run.Finish()
	c04RunAll(t, run, c04ModeC13, "C13")
	run.Require("schedules", vkit.Scale(300, 5000))
	run.Require("snapshot/total", 3000)
	run.Require("snapshot/with_retry_worker", 20)
	run.Require("snapshot/catch_up_done", 100)
	run.Require("snapshot/model_done", 100)
	run.Require("attempts/compared", 200)
	run.Require("attempts/grew", 10)
	run.Require("backoff/checked", 50)
	run.Require("waitcatchup/checked", 100)
	run.Require("waitcatchup/returned", 10)
	run.Require("drain/completed", 50)
	run.Require("call/return/cancelish", 5)
	run.Require("call/sample-timeout-fired/cancel-looking-error", 3)
	run.Assume("lower-bound timing only: both clock reads of the back-off check err on the safe side, load can only lengthen the measured gap")
	run.Assume("'eventually' is judged as: faults stop, polls keep arriving, the drain completes or a stable state proves it never will")
}
