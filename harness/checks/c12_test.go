package checks

import (
	"bytes"
	"context"
	"crypto/sha256"
	"fmt"
	"regexp"
	"runtime/debug"
	"strings"
	"sync"
	"sync/atomic"
	"testing"
	"time"

	libshare "github.com/celestiaorg/go-square/v4/share"
	"github.com/celestiaorg/nmt"

	"github.com/celestiaorg/celestia-node/blob"
	"github.com/celestiaorg/celestia-node/header"
	nodeheader "github.com/celestiaorg/celestia-node/nodebuilder/header"
	nodeshare "github.com/celestiaorg/celestia-node/nodebuilder/share"
	"github.com/celestiaorg/celestia-node/store"
	"github.com/celestiaorg/celestia-node/zz_verif/vkit"
)

// C12 — inclusion proofs handed to clients verify, and only for what they claim.
//
// Objects (each produced by the node's own public service over a real store of blocks built by
// the real layout rules): blob.CommitmentProof (Service.GetCommitmentProof), blob.Proof +
// Service.Included, share.GetRangeResult (share Module.GetRange), data-root tuple root and
// inclusion proof (blobstream.Service).
//
// Oracles
//   - completeness: the honest object verifies against the block's trusted root for the object it
//     was requested for, and carries exactly the reference data;
//   - soundness: for every tampered candidate (structural operators built from valid material,
//     substitution from other blobs / ranges / blocks, nil and short components, other
//     commitment, other root, byte mutation of the JSON form) verification returns an error and
//     never panics; an acceptance is tolerated only when what the accepted object *claims* is
//     true of the block (checked by an independent reference computation from the square), which
//     in particular holds when it re-marshals identically to the honest one. Acceptances of
//     non-identical but true objects are counted in the evidence ("accepted-nonidentical").
//   - Included truth table: answer true ⇔ commitment present ∧ supplied proof equals the node's own.
//   - Tuple proofs verify for (height, dataHash) and nothing else; invalid ranges error.
type c12 struct {
	run *vkit.Run
	n   atomic.Int64
}

func (c *c12) tried(obj, op, what string, blk *vkit.Block) {
	c.run.Eval(1)
	c.run.Count(obj+"/"+op+"/tried", 1)
	if n := c.n.Add(1); n%4999 == 1 {
		d := ""
		if blk != nil {
			d = blk.Desc()
		}
		c.run.Sample(map[string]any{"n": n, "block": d, "object": obj, "candidate": op, "case": what})
	}
}

// c12Blk is a block plus lazily built reference NMTs of its axes (rows 0..2w-1, then columns).
type c12Blk struct {
	*vkit.Block
	mu    sync.Mutex
	trees map[int]*nmt.NamespacedMerkleTree
}

// axisBytes returns the 2w shares of axis idx ∈ [0,4w): rows first, then columns (the leaf order
// of the data-root merkle tree).
func (b *c12Blk) axisBytes(idx int) [][]byte {
	n := 2 * b.W
	if idx < n {
		return b.EDS.Row(uint(idx))
	}
	return b.EDS.Col(uint(idx - n))
}

// subtreeRoot is the reference: the NMT inner node over leaves [start,end) of axis idx, computed
// from the square with a plain nmt (leaf = namespace ‖ share; parity namespace outside Q0).
func (b *c12Blk) subtreeRoot(idx, start, end int) ([]byte, error) {
	b.mu.Lock()
	defer b.mu.Unlock()
	n := 2 * b.W
	if idx < 0 || idx >= 2*n {
		return nil, fmt.Errorf("axis %d out of range", idx)
	}
	t := b.trees[idx]
	if t == nil {
		t = nmt.New(sha256.New(), nmt.NamespaceIDSize(libshare.NamespaceSize), nmt.IgnoreMaxNamespace(true))
		for j, sh := range b.axisBytes(idx) {
			ns := libshare.ParitySharesNamespace.Bytes()
			if idx%n < b.W && j < b.W { // original quadrant
				ns = sh[:libshare.NamespaceSize]
			}
			if err := t.Push(append(append([]byte{}, ns...), sh...)); err != nil {
				panic(fmt.Sprintf("c12 reference tree: %v", err))
			}
		}
		root, err := t.Root()
		want := append(append([][]byte{}, b.Sq.Roots.RowRoots...), b.Sq.Roots.ColumnRoots...)[idx]
		if err != nil || !bytes.Equal(root, want) {
			panic("c12 reference tree root differs from the DAH: reference model bug")
		}
		if b.trees == nil {
			b.trees = map[int]*nmt.NamespacedMerkleTree{}
		}
		b.trees[idx] = t
	}
	if start < 0 || end > n || start >= end {
		return nil, fmt.Errorf("range [%d,%d) out of the axis", start, end)
	}
	return t.ComputeSubtreeRoot(start, end)
}

// c12HeaderMod is a header service that only knows GetByHeight (all the share module uses).
type c12HeaderMod struct {
	nodeheader.Module
	headers *sync.Map
}

func (m *c12HeaderMod) GetByHeight(_ context.Context, h uint64) (*header.ExtendedHeader, error) {
	v, ok := m.headers.Load(h)
	if !ok {
		return nil, fmt.Errorf("header %d: not found", h)
	}
	return v.(*header.ExtendedHeader), nil
}

type c12Env struct {
	svc *blob.Service
	mod nodeshare.Module
}

// c12Pairs picks up to max distinct (namespace, commitment) pairs of a block: first, last,
// largest, twins first, then random.
func c12Pairs(r *vkit.RNG, blk *vkit.Block, max int) []*vkit.BlobRec {
	seen := map[string]bool{}
	var out []*vkit.BlobRec
	add := func(b *vkit.BlobRec) {
		k := string(b.NS.Bytes()) + string(b.Commitment)
		if !seen[k] && len(out) < max {
			seen[k] = true
			out = append(out, b)
		}
	}
	if len(blk.Blobs) == 0 {
		return nil
	}
	add(blk.Blobs[0])
	add(blk.Blobs[len(blk.Blobs)-1])
	big := blk.Blobs[0]
	keys := map[string]int{}
	for _, b := range blk.Blobs {
		if b.Len > big.Len {
			big = b
		}
		keys[b.Key()]++
	}
	add(big)
	for _, b := range blk.Blobs {
		if keys[b.Key()] > 1 {
			add(b)
			break
		}
	}
	for _, i := range r.Perm(len(blk.Blobs)) {
		add(blk.Blobs[i])
	}
	return out
}

var c12FrameRe = regexp.MustCompile(`(?m)^(\S+)\(.*\)\n\t(\S+):(\d+)`)

// c12Recover runs f; on a panic it returns the value, its kind (nil-deref, index-out-of-range,
// slice-bounds, other) and the innermost non-runtime function the panic was raised in. The pair
// (kind, function) names the root cause and is what violation signatures are built from.
func c12Recover(f func()) (p any, kind, where string) {
	defer func() {
		if x := recover(); x != nil {
			p = x
			msg := fmt.Sprint(x)
			switch {
			case strings.Contains(msg, "nil pointer dereference"):
				kind = "nil-deref"
			case strings.Contains(msg, "index out of range"):
				kind = "index-out-of-range"
			case strings.Contains(msg, "slice bounds out of range"):
				kind = "slice-bounds"
			default:
				kind = "other"
			}
			seen := false
			for _, m := range c12FrameRe.FindAllStringSubmatch(string(debug.Stack()), -1) {
				fn := m[1]
				if strings.HasPrefix(fn, "panic") {
					seen = true
					continue
				}
				if !seen || strings.HasPrefix(fn, "runtime.") {
					continue
				}
				if i := strings.LastIndex(fn, "/"); i >= 0 {
					fn = fn[i+1:]
				}
				where = fn
				break
			}
		}
	}()
	f()
	return nil, "", ""
}

func c12clone(b []byte) []byte {
	if b == nil {
		return nil
	}
	return append([]byte{}, b...)
}

func c12clone2(in [][]byte) [][]byte {
	if in == nil {
		return nil
	}
	out := make([][]byte, len(in))
	for i := range in {
		out[i] = c12clone(in[i])
	}
	return out
}

func c12flip(r *vkit.RNG, b []byte) []byte {
	out := c12clone(b)
	if len(out) > 0 {
		out[r.Intn(len(out))] ^= 1 << uint(r.Intn(8))
	}
	return out
}

func TestC12(t *testing.T) {
	run := vkit.NewRun(t, "C12", "exploration",
		"cases = (block built by the real layout rules) × (object: commitment proof per blob | blob proof + Included per blob | range result per in-namespace share range | "+
			"data-root tuple root/proof per header range and height) × (honest | tamper operator: append/drop/reorder/duplicate component, widen/shift range, substitution from another "+
			"blob/range/block/height, nil or short component, other commitment, other root | JSON byte mutation); distinct = distinct (block or header range, object, position, operator) on which the "+
			"real verifier was called; non-trivial = candidate assembled from valid proof material of the same or a sibling object (random bytes only inside JSON mutations)")
	defer run.Finish()
	defer run.WatchDeadlock("C12 a proof request never returns (stable state: blocked on a lock): ", func(f string) bool {
		return strings.Contains(f, "celestia-node/blob.") || strings.Contains(f, "blobstream.") || strings.Contains(f, "share/eds.")
	})()
	c11Quiet()
	c := &c12{run: run}
	rng := vkit.NewRNG(vkit.Seed(), "C12")
	ctx, cancel := context.WithTimeout(context.Background(), 40*time.Minute)
	defer cancel()

	st, err := store.NewStore(store.DefaultParameters(), c11RunDir(t, "c12-store"))
	if err != nil {
		t.Fatalf("store: %v", err)
	}
	defer func() { _ = st.Stop(context.Background()) }()
	headers := &sync.Map{}
	be := c11Service("store", store.NewGetter(st), headers)
	defer func() { _ = be.svc.Stop(context.Background()) }()
	env := &c12Env{svc: be.svc, mod: nodeshare.VerifNewModule(store.NewGetter(st), nil, &c12HeaderMod{headers: headers})}

	nBlocks := vkit.Scale(150, 1000)
	const batch = 50
	for base := 0; base < nBlocks && ctx.Err() == nil; base += batch {
		n := min(batch, nBlocks-base)
		blocks := make([]*c12Blk, n)
		var wg sync.WaitGroup
		sem := make(chan struct{}, 16)
		for i := 0; i < n; i++ {
			wg.Add(1)
			sem <- struct{}{}
			go func(i int) {
				defer wg.Done()
				defer func() { <-sem }()
				idx := base + i
				o := vkit.BlockOpts{Height: uint64(idx + 1)}
				switch {
				case idx < len(vkit.BlockProfiles):
					o.Profile = vkit.BlockProfiles[idx]
				case idx%5 == 0:
					o.Profile, o.MaxShares = "tiny", 6 // widths ≤ 4: ranges are enumerated exhaustively there
				}
				blk := vkit.GenBlock(rng.SplitN("block", idx), o)
				if perr := st.PutODSQ4(ctx, blk.Sq.Roots, blk.Height, blk.EDS); perr != nil {
					run.Inconclusive(fmt.Sprintf("store put of block %d failed: %v", idx, perr))
					return
				}
				headers.Store(blk.Height, blk.Header)
				blocks[i] = &c12Blk{Block: blk}
				run.Count("blocks", 1)
				run.Count(fmt.Sprintf("blocks/width/%d", blk.W), 1)
			}(i)
		}
		wg.Wait()
		for i := 0; i < n; i++ {
			if blocks[i] == nil {
				continue
			}
			other := blocks[(i+1)%n]
			for k := 2; other == nil || len(other.Blobs) == 0; k++ { // a sibling block that has blobs
				if k > n {
					other = blocks[i]
					break
				}
				other = blocks[(i+k)%n]
			}
			wg.Add(1)
			sem <- struct{}{}
			go func(i int, other *c12Blk) {
				defer wg.Done()
				defer func() { <-sem }()
				r := rng.SplitN("check", base+i)
				c.commitmentProofs(ctx, r.Split("cp"), env, blocks[i], other)
				c.included(ctx, r.Split("incl"), env, blocks[i], other)
				c.rangeResults(ctx, r.Split("range"), env, blocks[i], other)
			}(i, other)
		}
		wg.Wait()
	}
	c.tuples(ctx, rng.Split("tuples"))
	if ctx.Err() != nil {
		run.Inconclusive("outer watchdog fired")
	}

	run.Require("blocks", nBlocks)
	run.Require("commitment-proof/honest/accepted", 300)
	run.Require("included/honest/true", 300)
	run.Require("blob-proof/honest/verifies", 300)
	run.Require("range/honest/accepted", 300)
	run.Require("tuple/honest/accepted", 200)
	run.Require("commitment-proof/rejected", 5000)
	run.Require("included/answered-false-or-error", 3000)
	run.Require("range/rejected", 5000)
	run.Require("tuple/rejected", 2000)
	run.Assume("rsmt2d/nmt/sha256/go-square/cometbft merkle define what a data root commits to; hash collisions out of scope")
	run.Assume("RowProof.StartRow/EndRow are documented upstream as not validated; positions are taken from the cryptographically bound fields (merkle index, NMT start/end)")
	run.Assume("CommitmentProof.NamespaceID/NamespaceVersion are not part of what Verify checks (the namespace is bound through the subtree roots); differing values are counted, not flagged")
}
