package checks

// Scheduler, snapshot oracles, resumption probe and drain phase shared by TestC04 and TestC13.

import (
	"context"
	"fmt"
	"os"
	"runtime"
	"sort"
	"strconv"
	"strings"
	"sync"
	"testing"
	"time"

	"github.com/celestiaorg/celestia-node/das"
	"github.com/celestiaorg/celestia-node/header"
	"github.com/celestiaorg/celestia-node/zz_verif/vkit"
)

type c04Engine struct {
	run  *vkit.Run
	mode c04Mode

	mu       sync.Mutex
	suspects []*c04Suspect
	perClass map[string]int
}

type c04Suspect struct {
	s        *c04Sched
	in       *c04Inst
	class    string
	st       das.SamplingStats
	done     chan struct{}
	cancel   context.CancelFunc
	returned int64    // sampler calls returned when the drain was flagged
	flagged  string   // why it was flagged (diagnostic)
	workers  []string // worker goroutines of the whole process when flagged (diagnostic)
}

const c04Watchdog = 30 * time.Second

// ---------------------------------------------------------------------------------------------
// instance lifecycle

func (s *c04Sched) startInstance(L int, img *c04Image) *c04Inst {
	s.mu.Lock()
	in := &c04Inst{id: s.nextInst, L: L, sub: c04NewSub(),
		inflight: map[int]*c04Call{}, lastCall: map[uint64]*c04Call{}, subCalls: map[uint64]int{}, announced: map[uint64]bool{}, subCancelish: map[uint64]bool{},
		fails: map[uint64]int{}, lastFailRet: map[uint64]time.Time{}, cancelish: map[uint64]bool{}}
	s.nextInst++
	in.lo = s.tail
	if s.in != nil && s.in.lo > in.lo {
		in.lo = s.in.lo
	}
	in.startFrom = s.tail
	in.maxPushed = s.head
	in.startNetHead = s.head
	inner := c04NewInnerDS()
	if img != nil {
		in.image = img
		cp := img.cp
		in.startCp = &cp
		in.startFrom = cp.SampleFrom
		if len(cp.Workers) > L {
			in.resumedOver = true
		}
		// does the (clamped) checkpoint leave nothing to do? Then no coordinator event can happen
		// before a new head is accepted.
		in.startIdle = max(cp.SampleFrom, s.tail) > max(cp.NetworkHead, s.head)
		for h := range cp.Failed {
			if h >= s.tail {
				in.startIdle = false
			}
		}
		for _, w := range cp.Workers {
			if w.To >= s.tail {
				in.startIdle = false
			}
		}
		_ = inner.Put(context.Background(), img.key, img.bytes)
		s.tr("start inst#%d L=%d from checkpoint %s (tail=%d head=%d)", in.id, L, string(img.bytes), s.tail, s.head)
	} else {
		s.tr("start inst#%d L=%d without checkpoint (tail=%d head=%d)", in.id, L, s.tail, s.head)
	}
	s.in = in
	s.mu.Unlock()

	d, err := das.NewDASer(&c04Sampler{s: s, in: in}, in.sub, &c04Store{s: s}, &c04DS{Datastore: inner, s: s, in: in},
		das.WithSamplingRange(s.p.Range), das.WithConcurrencyLimit(L),
		das.WithBackgroundStoreInterval(s.p.BgEvery), das.WithSampleTimeout(c04SampleTimeout(s.p)))
	if err != nil {
		s.eng.run.Inconclusive("NewDASer: " + err.Error())
		return nil
	}
	d.VerifSetRetryIntervals(s.p.Backoff)
	in.d = d
	ctx, cancel := context.WithTimeout(context.Background(), c04Watchdog)
	defer cancel()
	if err := d.Start(ctx); err != nil {
		s.eng.run.Inconclusive("DASer.Start: " + err.Error())
		return nil
	}
	s.eng.run.Count("instance/started", 1)
	return in
}

// kill ends the current lifetime. kind: graceful | crash | stop-crash. It returns the image a
// restart will find on disk.
func (s *c04Sched) kill(kind string) *c04Image {
	in := s.in
	run := s.eng.run
	s.mu.Lock()
	recent := 0
	for _, c := range in.inflight {
		if c.via == "sub" {
			recent++
		}
	}
	s.tr("%s inst#%d (calls in flight: %d, newest-head calls in flight: %d)", kind, in.id, len(in.inflight), recent)
	switch kind {
	case "crash":
		in.dead = true
	case "stop-crash":
		in.dieAfterPut = true
	}
	s.mu.Unlock()
	run.Count("kill/"+kind, 1)
	if recent > 0 {
		run.Count("kill/"+kind+"/while_newest_head_in_flight", 1)
	}
	ctx, cancel := context.WithTimeout(context.Background(), c04Watchdog)
	err := in.d.Stop(ctx)
	cancel()
	if err != nil {
		run.Inconclusive("DASer.Stop did not finish within the watchdog: " + err.Error())
	}
	s.mu.Lock()
	in.dead = in.dead || kind != "graceful"
	in.dieAfterPut = false
	in.stopped = true
	img := in.image
	s.mu.Unlock()
	return img
}

// ---------------------------------------------------------------------------------------------
// snapshot oracles

func (s *c04Sched) poll() (das.SamplingStats, bool) {
	in := s.in
	s.mu.Lock()
	s.lt++
	ltCall := s.lt
	s.mu.Unlock()
	ctx, cancel := context.WithTimeout(context.Background(), c04Watchdog)
	st, err := in.d.SamplingStats(ctx)
	cancel()
	if err != nil {
		s.eng.run.Inconclusive("SamplingStats did not answer within the watchdog")
		return st, false
	}
	s.mu.Lock()
	s.lt++
	snap := &c04Snap{st: st, ltCall: ltCall, ltRet: s.lt}
	s.judgeSnapLocked(in, snap)
	in.prev = snap
	s.mu.Unlock()
	return st, true
}

func c04Covers(st das.SamplingStats, h uint64) bool {
	for _, w := range st.Workers {
		if w.Curr <= h && h <= w.To {
			return true
		}
	}
	return false
}

func (s *c04Sched) judgeSnapLocked(in *c04Inst, sn *c04Snap) {
	run := s.eng.run
	st := sn.st
	run.Eval(1)
	run.Count("snapshot/total", 1)
	var nCatch, nRecent, nRetry int
	for _, w := range st.Workers {
		switch string(w.JobType) {
		case "catchup":
			nCatch++
		case "recent":
			nRecent++
		case "retry":
			nRetry++
		}
	}
	blocked := 0
	for _, c := range in.inflight {
		if c.oc.block && !c.released {
			blocked++
		}
	}
	if nRecent > 0 {
		run.Count("snapshot/with_newest_head_worker", 1)
	}
	if nRetry > 0 {
		run.Count("snapshot/with_retry_worker", 1)
	}
	if len(st.Failed) > 0 {
		run.Count("snapshot/with_failed", 1)
	}
	if st.CatchUpDone {
		run.Count("snapshot/catch_up_done", 1)
	}
	gap := 0
	if st.NetworkHead > st.CatchupHead {
		gap = int(st.NetworkHead - st.CatchupHead)
	}
	sig := fmt.Sprintf("snap|R%d|L%d|c%d|n%d|r%d|f%d|done%v|gap%d|blk%d|inst%d", s.p.Range, in.L, nCatch, nRecent, nRetry,
		c04b(len(st.Failed)), st.CatchUpDone, c04b(gap), c04b(blocked), min(in.id, 2))
	run.Distinct(sig)
	run.SetAdd("coordinator_states", sig)
	run.Max("max/workers_listed", len(st.Workers))
	if st.NetworkHead > in.startNetHead {
		in.headAccepted = true
	}

	if s.eng.mode == c04ModeC04 {
		// (1) live no-loss
		var lost []uint64
		for h := in.lo; h <= st.NetworkHead; h++ {
			if _, ok := s.S[h]; ok || s.excused[h] || h > st.CatchupHead {
				continue
			}
			if _, ok := st.Failed[h]; ok || c04Covers(st, h) {
				continue
			}
			lost = append(lost, h)
		}
		if len(lost) > 0 {
			run.Violation("C04 live no-loss: height neither sampled, queued, in flight nor failed ("+s.classifyLost(in, lost[0])+")", s.detail(map[string]any{
				"stats": c04StatsJSON(st), "lost": lost, "start_point": in.lo,
			}))
		}
		// (2) head soundness
		var unsound []uint64
		for h := in.lo; h <= st.SampledChainHead && h < in.lo+400; h++ {
			if _, ok := s.S[h]; !ok && !s.excused[h] {
				unsound = append(unsound, h)
			}
		}
		if len(unsound) > 0 {
			run.Violation("C04 head soundness: SampledChainHead at or above an unsampled height ("+s.classifyLost(in, unsound[0])+")", s.detail(map[string]any{
				"stats": c04StatsJSON(st), "unsampled_at_or_below_sampled_chain_head": unsound, "start_point": in.lo,
			}))
		}
		if st.SampledChainHead >= in.lo {
			run.Count("snapshot/head_soundness_nontrivial", 1)
		}
		return
	}

	// ---- C13
	// (e) concurrency bounds
	class := ""
	if in.resumedOver {
		class = " after a restart with a lower limit than the number of checkpointed workers"
	}
	if nCatch+nRetry > in.L {
		run.Violation("C13 catch-up+retry workers exceed the concurrency limit"+class, s.detail(map[string]any{"stats": c04StatsJSON(st), "limit": in.L}))
	}
	if len(st.Workers) > 2*in.L {
		run.Violation("C13 workers exceed twice the concurrency limit"+class, s.detail(map[string]any{"stats": c04StatsJSON(st), "limit": in.L}))
	}
	if st.Concurrency != len(st.Workers) {
		run.Violation("C13 stats: Concurrency differs from the number of listed workers", s.detail(map[string]any{"stats": c04StatsJSON(st)}))
	}
	// (f) CatchUpDone <=> nothing queued, in flight or failed
	model := c04Quiescent(st)
	if model {
		run.Count("snapshot/model_done", 1)
	}
	if model && !st.CatchUpDone {
		cl := "other"
		if in.startIdle && st.NetworkHead == in.startNetHead {
			cl = "fresh start from a checkpoint with nothing left to do, no event yet"
		}
		run.Violation("C13 catch-up not reported done although nothing is queued, in flight or failed: "+cl, s.detail(map[string]any{"stats": c04StatsJSON(st)}))
	}
	if !model && st.CatchUpDone {
		run.Violation("C13 catch-up reported done while work is queued, in flight or failed", s.detail(map[string]any{"stats": c04StatsJSON(st)}))
	}
	// (k) statistics agree with what was sampled, completeness side: when done, the sampled head is the network head
	if st.CatchUpDone && model && st.SampledChainHead != st.NetworkHead {
		run.Violation("C13 stats: catch-up done but SampledChainHead != NetworkHead", s.detail(map[string]any{"stats": c04StatsJSON(st)}))
	}
	// progress clause at quiescence: every known height was sampled
	if model {
		var never []uint64
		for h := max(in.lo, s.tail); h <= st.NetworkHead; h++ {
			if _, ok := s.S[h]; !ok && !s.excused[h] {
				never = append(never, h)
			}
		}
		if len(never) > 0 {
			run.Violation("C13 nothing queued, in flight or failed but a known height was never sampled ("+s.classifyLost(in, never[0])+")",
				s.detail(map[string]any{"stats": c04StatsJSON(st), "never_sampled": never}))
		}
	}
	// (h) attempt count of a height that stays failed never decreases
	if p := in.prev; p != nil {
		for h, was := range p.st.Failed {
			now, still := st.Failed[h]
			if !still {
				continue
			}
			if lt, ok := s.S[h]; ok && lt >= p.ltCall {
				continue // it succeeded in between: a fresh failure record is legitimate
			}
			// SamplingStats.Failed is a SUM (in-flight worker failures + failed record + in-retry record): while
			// some worker covers the height the reported number double-counts and legitimately fluctuates. The
			// attempt count proper is only observable when no worker covers the height in either snapshot.
			covered := false
			for _, w := range append(append([]das.WorkerStats{}, p.st.Workers...), st.Workers...) {
				if w.From <= h && h <= w.To {
					covered = true
				}
			}
			if covered {
				run.Count("attempts/skipped-in-flight", 1)
				continue
			}
			run.Count("attempts/compared", 1)
			if now > was {
				run.Count("attempts/grew", 1)
			}
			if now >= was {
				continue
			}
			overlap := in.subCalls[h] > 0
			for _, w := range append(append([]das.WorkerStats{}, p.st.Workers...), st.Workers...) {
				if string(w.JobType) != "retry" && w.From <= h && h <= w.To {
					overlap = true
				}
			}
			if in.startCp != nil {
				// a height of the resumed checkpoint is sampled again by a resumed worker (below sample_from)
				// or by the catch-up that restarts at sample_from (a failed newest-head height above it)
				if _, ok := in.startCp.Failed[h]; ok || h < in.startCp.SampleFrom {
					overlap = true
				}
			}
			cl := "only retry jobs ever touched the height"
			if overlap {
				cl = "height also covered by a catch-up/newest-head job"
			}
			run.Violation("C13 attempt count of a still-failed height decreased: "+cl, s.detail(map[string]any{
				"height": h, "count_before": was, "count_after": now, "stats_before": c04StatsJSON(p.st), "stats_after": c04StatsJSON(st),
			}))
		}
	}
}

// ---------------------------------------------------------------------------------------------
// resumption probe (C04-4): a fresh DASer over a datastore holding only the image, all-success sampler

type c04ProbeAvail struct {
	mu  sync.Mutex
	got map[uint64]int
}

func (p *c04ProbeAvail) SharesAvailable(_ context.Context, h *header.ExtendedHeader) error {
	p.mu.Lock()
	p.got[h.Height()]++
	p.mu.Unlock()
	return nil
}

func (s *c04Sched) judgeResume(img *c04Image, kind string, nextL int) {
	run := s.eng.run
	if img == nil {
		run.Count("resume/no_checkpoint_on_disk", 1)
		return
	}
	s.mu.Lock()
	tail, head := s.tail, s.head
	lo := max(s.in.lo, tail)
	need := map[uint64]bool{}
	for h := lo; h <= head; h++ {
		if !img.sAt[h] && !s.excused[h] {
			need[h] = true
		}
	}
	s.mu.Unlock()
	defer func() { // heights this checkpoint is already reported to lose: known consequence for the rest of the schedule
		s.mu.Lock()
		for h := range img.lost {
			if h >= lo {
				s.excused[h] = true
			}
		}
		s.mu.Unlock()
	}()
	run.Count("resume/"+kind, 1)
	if len(need) > 0 {
		run.Count("resume/"+kind+"/with_unsampled_heights", 1)
	}
	if s.eng.mode != c04ModeC04 {
		return
	}
	got, ok := c04Probe(s, img, tail, head, nextL)
	if !ok {
		return
	}
	run.Eval(1)
	run.Distinct(fmt.Sprintf("resume|%s|R%d|L%d|need%d|w%d|f%d", kind, s.p.Range, nextL, c04b(len(need)), c04b(len(img.cp.Workers)), c04b(len(img.cp.Failed))))
	byClass := map[string][]uint64{}
	for h := range need {
		if got[h] > 0 {
			continue
		}
		cl, known := img.lost[h]
		if !known {
			cl = "covered by the checkpoint but not re-sampled"
		}
		byClass[cl] = append(byClass[cl], h)
	}
	s.mu.Lock()
	defer s.mu.Unlock() // runs before the deferred excusing above
	for cl, hs := range byClass {
		sort.Slice(hs, func(i, j int) bool { return hs[i] < hs[j] })
		for _, h := range hs {
			s.excused[h] = true
		}
		run.Violation("C04 resume reaches quiescence without re-sampling an unsampled height: "+cl, s.detail(map[string]any{
			"how_the_previous_lifetime_ended": kind,
			"checkpoint":                      string(img.bytes), "written_by_instance": img.inst, "put_no": img.putNo,
			"tail_at_restart": tail, "head_at_restart": head, "never_resampled": hs,
			"unsampled_when_checkpoint_was_written": c04Sorted(need),
		}))
	}
}

func c04Probe(s *c04Sched, img *c04Image, tail, head uint64, L int) (map[uint64]int, bool) {
	run := s.eng.run
	smp := &c04ProbeAvail{got: map[uint64]int{}}
	inner := c04NewInnerDS()
	_ = inner.Put(context.Background(), img.key, img.bytes)
	d, err := das.NewDASer(smp, c04NewSub(), &c04Store{tail: tail, head: head}, inner,
		das.WithSamplingRange(s.p.Range), das.WithConcurrencyLimit(L),
		das.WithBackgroundStoreInterval(0), das.WithSampleTimeout(time.Hour))
	if err != nil {
		run.Inconclusive("probe NewDASer: " + err.Error())
		return nil, false
	}
	d.VerifSetRetryIntervals(nil)
	ctx, cancel := context.WithTimeout(context.Background(), c04Watchdog)
	defer cancel()
	if err := d.Start(ctx); err != nil {
		run.Inconclusive("probe Start: " + err.Error())
		return nil, false
	}
	ok := false
	deadline := time.Now().Add(c04Watchdog)
	for i := 0; time.Now().Before(deadline); i++ {
		st, err := d.SamplingStats(ctx)
		if err != nil {
			break
		}
		if c04Quiescent(st) {
			ok = true
			break
		}
		if i > 20 {
			time.Sleep(100 * time.Microsecond)
		} else {
			runtime.Gosched()
		}
	}
	if err := d.Stop(ctx); err != nil {
		run.Inconclusive("probe Stop: " + err.Error())
	}
	if !ok {
		run.Inconclusive("resumption probe did not reach quiescence within the watchdog")
		return nil, false
	}
	run.Count("resume/probes", 1)
	smp.mu.Lock()
	defer smp.mu.Unlock()
	out := make(map[uint64]int, len(smp.got))
	for h, n := range smp.got {
		out[h] = n
	}
	return out, true
}

// ---------------------------------------------------------------------------------------------
// events

func (s *c04Sched) announce() {
	in := s.in
	k := s.rng.Intn(10)
	s.mu.Lock()
	var h uint64
	kind := "consecutive"
	switch {
	case k <= 5:
		h = s.head + 1
	case k <= 7:
		kind = "skipping"
		h = s.head + uint64(s.rng.Range(2, 6))
	case k == 8:
		kind = "duplicate"
		h = s.head
	default:
		kind = "stale"
		h = s.tail + uint64(s.rng.Intn(int(s.head-s.tail)+1))
	}
	if h > s.p.MaxH {
		kind = "duplicate"
		h = s.head
	}
	if h > s.head {
		s.head = h // the header store knows a header before the subscription hands it out
	}
	s.tr("announce %s %d", kind, h)
	in.announced[h] = true
	s.mu.Unlock()
	in.sub.push(h)
	if h > in.maxPushed {
		in.maxPushed = h
	}
	s.eng.run.Count("event/announce/"+kind, 1)
}

func (s *c04Sched) release(all bool) int {
	in := s.in
	s.mu.Lock()
	defer s.mu.Unlock()
	var ids []int
	for id, c := range in.inflight {
		if c.oc.block && !c.released {
			ids = append(ids, id)
		}
	}
	sort.Ints(ids)
	if len(ids) == 0 {
		return 0
	}
	if !all {
		ids = []int{ids[s.rng.Intn(len(ids))]}
	}
	for _, id := range ids {
		c := in.inflight[id]
		c.released = true
		close(c.release)
		s.tr("release h=%d attempt=%d via=%s -> %s", c.h, c.att, c.via, c04KindName[c.oc.kind])
	}
	return len(ids)
}

// syncHeads polls until every announced head was taken by the coordinator.
func (s *c04Sched) syncHeads() bool {
	in := s.in
	deadline := time.Now().Add(c04Watchdog)
	for i := 0; ; i++ {
		st, ok := s.poll()
		if !ok {
			return false
		}
		if st.NetworkHead >= in.maxPushed {
			return true
		}
		if time.Now().After(deadline) {
			s.eng.run.Inconclusive("announced head not taken by the coordinator within the watchdog")
			return false
		}
		if i > 10 {
			time.Sleep(100 * time.Microsecond)
		} else {
			runtime.Gosched()
		}
	}
}

// waitCheck: WaitCatchUp returns iff catch-up is done. A cancelled context makes the call
// non-blocking: nil iff the done flag is set. No head is pending (all announced heads were taken
// and the driver is the only announcer), so "done" cannot be revoked between the three steps.
func (s *c04Sched) waitCheck() {
	in := s.in
	st1, ok := s.poll()
	if !ok || st1.NetworkHead < in.maxPushed {
		return
	}
	ctx, cancel := context.WithCancel(context.Background())
	cancel()
	err := in.d.WaitCatchUp(ctx)
	st2, ok := s.poll()
	if !ok {
		return
	}
	run := s.eng.run
	run.Eval(1)
	run.Count("waitcatchup/checked", 1)
	if err == nil {
		run.Count("waitcatchup/returned", 1)
	}
	s.mu.Lock()
	defer s.mu.Unlock()
	if st1.CatchUpDone && err != nil {
		run.Violation("C13 WaitCatchUp does not return although catch-up is reported done", s.detail(map[string]any{"stats": c04StatsJSON(st1), "err": err.Error()}))
	}
	if err == nil && !st2.CatchUpDone {
		run.Violation("C13 WaitCatchUp returned although catch-up is not done", s.detail(map[string]any{"stats_before": c04StatsJSON(st1), "stats_after": c04StatsJSON(st2)}))
	}
}

func (s *c04Sched) restart(kind string) bool {
	img := s.kill(kind)
	// while the node is down: the chain may grow, the header store may be pruned
	s.mu.Lock()
	if s.rng.Chance(1, 3) && s.head < s.p.MaxH {
		s.head = min(s.p.MaxH, s.head+uint64(s.rng.Range(1, 5)))
		s.tr("chain grows to %d while down", s.head)
	}
	if s.rng.Chance(1, 4) {
		s.tail = min(s.head, s.tail+uint64(s.rng.Range(1, 4)))
		s.tr("tail moves to %d while down", s.tail)
	}
	L := s.in.L
	if s.p.VaryLimit {
		L = vkit.Pick(s.rng, []int{1, 2, 4})
	}
	s.mu.Unlock()
	s.judgeResume(img, kind, L)
	s.restarts++
	return s.startInstance(L, img) != nil
}

// ---------------------------------------------------------------------------------------------
// drain: faults stop, only polls keep arriving (the fair continuation)

func (s *c04Sched) drained(st das.SamplingStats) bool {
	if len(st.Workers) != 0 || st.CatchupHead < st.NetworkHead {
		return false
	}
	s.mu.Lock()
	defer s.mu.Unlock()
	for h := range st.Failed {
		if h >= s.tail {
			return false
		}
	}
	return true
}

// drain returns false when the instance was handed over to the stable-state confirmation.
func (s *c04Sched) drain() bool {
	in := s.in
	run := s.eng.run
	s.mu.Lock()
	s.fair = true
	s.tr("faults stop; drain")
	s.mu.Unlock()
	s.release(true)
	if !s.syncHeads() {
		return true
	}
	c13 := s.eng.mode == c04ModeC13
	var wres chan error
	wctx, wcancel := context.WithCancel(context.Background())
	wdone := make(chan struct{})
	if c13 {
		wres = make(chan error, 1)
		go func() {
			err := in.d.WaitCatchUp(wctx)
			wres <- err
			if err == nil {
				close(wdone)
			}
		}()
	}
	s.mu.Lock()
	startCalls := in.returned
	s.mu.Unlock()
	var lastKey string
	var lastChange time.Time = time.Now()
	unchanged := 0
	waiterReturned := false
	deadline := time.Now().Add(c04Watchdog)
	for round := 0; ; round++ {
		st, ok := s.poll()
		if !ok {
			wcancel()
			return true
		}
		if c13 && !waiterReturned {
			select {
			case err := <-wres:
				waiterReturned = true
				if err == nil {
					st2, ok := s.poll()
					if ok && !st2.CatchUpDone {
						s.mu.Lock()
						run.Violation("C13 WaitCatchUp returned although catch-up is not done", s.detail(map[string]any{"stats_after": c04StatsJSON(st2), "phase": "drain"}))
						s.mu.Unlock()
					}
					run.Count("waitcatchup/blocking_returned", 1)
				}
			default:
			}
		}
		if s.drained(st) {
			run.Count("drain/completed", 1)
			if c13 && st.CatchUpDone && !waiterReturned {
				select {
				case <-wres:
					run.Count("waitcatchup/blocking_returned", 1)
				case <-time.After(10 * time.Second):
					run.Inconclusive("WaitCatchUp still blocked 10s after a snapshot reported catch-up done")
				}
			}
			wcancel()
			return true
		}
		s.mu.Lock()
		calls := int(in.returned - startCalls)
		inflight := len(in.inflight)
		heights := int(st.NetworkHead) - int(in.lo) + 1
		// progress key: heights below the header-store tail can never be sampled again (their header is
		// gone); their endless retries are not progress
		key := fmt.Sprintf("%d|%d|%d|%d|", st.CatchupHead, st.NetworkHead, in.returned, inflight)
		var wk []string // the worker list comes out of a map: order is arbitrary
		for _, w := range st.Workers {
			if string(w.JobType) == "retry" && w.From < s.tail {
				continue
			}
			wk = append(wk, fmt.Sprintf("%s:%d-%d@%d", w.JobType, w.From, w.To, w.Curr))
		}
		sort.Strings(wk)
		key += fmt.Sprint(wk)
		var fk []uint64
		for h := range st.Failed {
			if h >= s.tail {
				fk = append(fk, h)
			}
		}
		sort.Slice(fk, func(i, j int) bool { return fk[i] < fk[j] })
		key += fmt.Sprint(fk)
		s.mu.Unlock()
		if bound := 4 * (heights + 10); c13 && calls > bound {
			s.mu.Lock()
			run.Violation("C13 no bounded progress after faults stopped: sampler keeps being called without completing", s.detail(map[string]any{
				"calls_since_faults_stopped": calls, "bound": bound, "stats": c04StatsJSON(st)}))
			s.mu.Unlock()
			wcancel()
			return true
		}
		if key != lastKey {
			lastKey, lastChange, unchanged = key, time.Now(), 0
		} else {
			unchanged++
		}
		// nothing moved for long: hand over to the stable-state confirmation (a suspicion, not a verdict)
		flagRounds, flagAfter := 300, 1200*time.Millisecond
		if os.Getenv("VERIF_C04_EAGER") == "1" { // self-test aid: flag live drains too; the confirmation must clear them
			flagRounds, flagAfter = 1, 0
		}
		if unchanged >= flagRounds && time.Since(lastChange) > flagAfter && inflight == 0 {
			run.Count("drain/suspected_stuck", 1)
			if !c13 {
				wcancel()
				return true
			}
			s.mu.Lock()
			class := s.stuckClassLocked(in, st)
			ret := in.returned
			s.mu.Unlock()
			flagged := fmt.Sprintf("unchanged for %d polls / %v, no sampler call in flight, key=%s", unchanged, time.Since(lastChange).Round(time.Millisecond), lastKey)
			if s.eng.keepSuspect(&c04Suspect{s: s, in: in, class: class, st: st, done: wdone, cancel: wcancel, returned: ret, flagged: flagged, workers: c04WorkerGoroutines()}) {
				return false
			}
			wcancel()
			return true
		}
		if time.Now().After(deadline) {
			run.Inconclusive(fmt.Sprintf("drain neither completed nor settled within the watchdog: unchanged=%d inflight=%d tail=%d key=%s stats=%s", unchanged, inflight, s.tail, lastKey, c04StatsJSON(st)))
			wcancel()
			return true
		}
		if round < 20 {
			runtime.Gosched()
		} else {
			time.Sleep(time.Duration(200+s.rng.Intn(600)) * time.Microsecond)
		}
	}
}

// c04WorkerGoroutines returns the das worker goroutines of the process (all schedules), trimmed.
func c04WorkerGoroutines() []string {
	buf := make([]byte, 8<<20)
	buf = buf[:runtime.Stack(buf, true)]
	var out []string
	for _, g := range strings.Split(string(buf), "\n\n") {
		if !strings.Contains(g, "das.(*worker)") {
			continue
		}
		lines := strings.Split(g, "\n")
		var keep []string
		for i, l := range lines {
			if i == 0 || (!strings.HasPrefix(l, "\t") && !strings.HasPrefix(l, "created by")) {
				keep = append(keep, l)
			}
		}
		if len(keep) > 14 {
			keep = keep[:14]
		}
		out = append(out, strings.Join(keep, " <- "))
		if len(out) >= 40 {
			break
		}
	}
	return out
}

// stuckClassLocked names the scenario class of a drain that does not complete. Caller holds mu.
func (s *c04Sched) stuckClassLocked(in *c04Inst, st das.SamplingStats) string {
	all, n := true, 0
	for _, w := range st.Workers {
		hit := false
		for h := w.From; h <= w.To; h++ {
			if in.cancelish[h] {
				hit = true
			}
		}
		if !hit && string(w.JobType) == "retry" && w.From < s.tail {
			continue // transient retry of a height whose header is gone
		}
		n++
		all = all && hit
	}
	switch {
	case n == 0:
		return "no worker listed, yet the catch-up cursor or the failed heights do not move"
	case all:
		return "worker stays listed forever after its sampler call returned an error wrapping context.Canceled while the DASer keeps running"
	default:
		return "other"
	}
}

func (e *c04Engine) keepSuspect(su *c04Suspect) bool {
	e.mu.Lock()
	defer e.mu.Unlock()
	e.perClass[su.class]++
	if e.perClass[su.class] > 2 {
		e.run.Count("drain/suspects_not_examined(beyond 2 per class)", 1)
		return false
	}
	e.suspects = append(e.suspects, su)
	return true
}

// confirmSuspects runs after all schedules ended: the process is then a closed system (no driver
// goroutine issues anything), so an unchanged goroutine dump with nothing runnable is a state that
// cannot change by itself.
func (e *c04Engine) confirmSuspects() {
	for _, su := range e.suspects {
		e.confirmSuspect(su)
		su.cancel()
		ctx, cancel := context.WithTimeout(context.Background(), c04Watchdog)
		_ = su.in.d.Stop(ctx)
		cancel()
	}
}

// confirmSuspect decides a drain that was flagged as not moving. What the statement promises is that
// every job reports, i.e. the worker list drains and the queue empties. WaitCatchUp (the `done` of the
// stable-state wait) legitimately never returns while a height below the header-store tail sits in
// Failed (its header is gone, it can never be sampled), and a flagged drain may merely have been slow
// (a starved but runnable goroutine). Hence the verdict is taken on *fresh* snapshots, in rounds:
//
//	stable state (closed system, no goroutine runnable, dump unchanged: nothing moves by itself)
//	-> polls, the only events of the fair continuation (each lets the coordinator start due retries)
//	-> stable state again, so that whatever the polls started has finished or is provably blocked ...
//
// The drain is stuck only if it is still incomplete after the last round: a worker that is then still
// listed although no worker goroutine exists will never report.
func (e *c04Engine) confirmSuspect(su *c04Suspect) {
	s := su.s
	s.mu.Lock()
	s.in = su.in
	s.mu.Unlock()
	var fresh das.SamplingStats
	var dump string
	const rounds = 3
	for round := 1; round <= rounds; round++ {
		var verdict string
		verdict, dump = vkit.WaitStable(su.done, vkit.StableOpts{Polls: 12, Every: 25 * time.Millisecond, MaxWait: 60 * time.Second,
			Ignore: []string{"runBackgroundStore"}})
		if verdict == "done" {
			e.run.Count("drain/suspect_resolved_by_itself", 1)
			return
		}
		if verdict != "hang" {
			e.run.Inconclusive("stable-state confirmation of a stuck drain did not settle")
			return
		}
		e.run.Count("drain/suspect_stable_state_reached", 1)
		for i := 0; i < 400; i++ {
			var ok bool
			if fresh, ok = s.poll(); !ok {
				return
			}
			if s.drained(fresh) {
				// it completed: the drain was slow (or only WaitCatchUp could not return, see above), not stuck
				e.run.Count("drain/suspect_was_only_slow", 1)
				s.mu.Lock()
				e.run.Sample(map[string]any{"slow_drain_resolved": map[string]any{"flagged_because": su.flagged, "stats_when_flagged": c04StatsJSON(su.st),
					"stats_after_stable_state": c04StatsJSON(fresh), "sampler_calls_returned_when_flagged": su.returned,
					"sampler_calls_returned_now": su.in.returned, "store_tail": s.tail, "confirmation_round": round,
					"worker_goroutines_of_process_when_flagged": su.workers}, "params": s.p})
				s.mu.Unlock()
				return
			}
			time.Sleep(500 * time.Microsecond)
		}
	}
	s.mu.Lock()
	defer s.mu.Unlock()
	var calls []string
	for _, w := range fresh.Workers {
		for h := w.From; h <= w.To; h++ {
			if c := su.in.lastCall[h]; c != nil {
				calls = append(calls, fmt.Sprintf("h=%d attempt=%d via=%s last call: %s", h, c.att, c.via, c.state))
			}
		}
	}
	class := s.stuckClassLocked(su.in, fresh)
	if n := strings.Count(dump, "das.(*worker).run"); n > 0 {
		class = "worker goroutine blocked forever"
	}
	e.run.Count("drain/suspect_confirmed_stuck", 1)
	e.run.Violation("C13 job never reports: "+class, s.detail(map[string]any{
		"stats": c04StatsJSON(fresh), "stats_when_flagged": c04StatsJSON(su.st), "flagged_because": su.flagged,
		"last_sampler_calls_in_listed_ranges": calls, "sampler_calls_in_flight": len(su.in.inflight),
		"sampler_calls_returned_when_flagged": su.returned, "sampler_calls_returned_now": su.in.returned,
		"worker_goroutines_in_last_stable_dump": strings.Count(dump, "das.(*worker).run"),
		"blocked_goroutines_repo_frames":        vkit.RepoFrames(dump),
		"why":                                   "faults stopped and every sampler call returned; three times the process reached a state in which no goroutine is runnable and the dump does not change, each followed by 400 polls: the drain is still incomplete, so the listed worker will never report (its slot and heights are lost until restart) or the coordinator never hands out the remaining work",
	}))
}

// ---------------------------------------------------------------------------------------------
// one schedule

func (s *c04Sched) execute() {
	run := s.eng.run
	if s.startInstance(s.p.L, nil) == nil {
		return
	}
	for i := 0; i < s.p.Events; i++ {
		x := s.rng.Intn(100)
		switch {
		case x < 28:
			s.announce()
		case x < 52:
			if s.release(false) > 0 {
				run.Count("event/release", 1)
			} else {
				s.poll()
				run.Count("event/poll", 1)
			}
		case x < 70:
			s.poll()
			run.Count("event/poll", 1)
		case x < 79:
			time.Sleep(time.Duration(s.rng.Range(100, 1500)) * time.Microsecond)
			run.Count("event/sleep", 1)
		case x < 83:
			s.syncHeads()
			run.Count("event/sync_heads", 1)
		case x < 86:
			s.mu.Lock()
			if s.tail < s.head {
				s.tail = min(s.head, s.tail+uint64(s.rng.Range(1, 4)))
				s.tr("tail moves to %d", s.tail)
			}
			s.mu.Unlock()
			run.Count("event/advance_tail", 1)
		case x < 90:
			if s.eng.mode == c04ModeC13 {
				s.waitCheck()
				run.Count("event/wait_check", 1)
			} else {
				s.poll()
				run.Count("event/poll", 1)
			}
		default:
			if s.restarts >= 4 {
				s.poll()
				continue
			}
			kind := "graceful"
			switch {
			case x >= 97:
				kind = "stop-crash"
			case x >= 94:
				kind = "crash"
			}
			run.Count("event/restart/"+kind, 1)
			if !s.restart(kind) {
				return
			}
		}
	}
	if s.p.EndCrash {
		img := s.kill("crash")
		s.judgeResume(img, "crash", s.in.L)
		return
	}
	if !s.drain() {
		return // instance kept alive for the stable-state confirmation
	}
	img := s.kill("graceful")
	s.judgeResume(img, "graceful", s.in.L)
}

func c04SampleTimeout(p c04Params) time.Duration {
	if p.SampleTimeout > 0 {
		return p.SampleTimeout
	}
	return time.Hour
}

func (e *c04Engine) params(rng *vkit.RNG, i int) c04Params {
	r := rng.SplitN("schedule", i)
	p := c04Params{Idx: i, Range: vkit.Pick(r, []uint64{1, 2, 3, 10}), L: vkit.Pick(r, []int{1, 2, 4}),
		MaxH: uint64(r.Range(20, 80)), Tail0: uint64(r.Range(1, 3)), Events: r.Range(60, 200), OcSeed: r.Uint64()}
	p.Head0 = min(p.MaxH, p.Tail0+uint64(r.Intn(26)))
	switch r.Intn(3) {
	case 0:
		p.PFail, p.POutside, p.PBlock = 5, 5, 15
	case 1:
		p.PFail, p.POutside, p.PBlock = 25, 10, 30
	default:
		p.PFail, p.POutside, p.PBlock = 10, 5, 60
	}
	p.BgEvery = vkit.Pick(r, []time.Duration{time.Millisecond, time.Millisecond, 5 * time.Millisecond, 50 * time.Millisecond})
	base := vkit.Pick(r, []time.Duration{2 * time.Millisecond, 5 * time.Millisecond})
	p.Backoff = []time.Duration{base, 4 * base, 16 * base}
	if r.Chance(3, 10) {
		p.PHdrFail = 12
	}
	if e.mode == c04ModeC13 {
		if r.Chance(3, 10) {
			p.PCancel = 6
			p.BgEvery = 50 * time.Millisecond // keeps the stable-state confirmation quiet
		}
		p.VaryLimit = r.Chance(1, 2)
	} else {
		if r.Chance(2, 10) {
			p.PCancel = 4
		}
		p.EndCrash = r.Chance(1, 3)
	}
	// a short per-sample timeout in a fifth of the schedules (own stream: the other parameters of a
	// schedule index stay what they were)
	if st := r.Split("sample-timeout"); st.Chance(2, 10) {
		p.SampleTimeout = vkit.Pick(st, []time.Duration{15 * time.Millisecond, 40 * time.Millisecond})
		if p.PCancel == 0 {
			p.PCancel = 5
		}
	}
	return p
}

func c04RunAll(t *testing.T, run *vkit.Run, mode c04Mode, label string) *c04Engine {
	c04Quiet()
	e := &c04Engine{run: run, mode: mode, perClass: map[string]int{}}
	rng := vkit.NewRNG(vkit.Seed(), label)
	n := vkit.Scale(300, 5000)
	// replay aid: VERIF_C04_SCHEDULE=<index> [VERIF_C04_REPEAT=<n>] runs one schedule of the seed's list n times
	// (the interleaving differs from run to run; minimum-coverage requirements will then report inconclusive)
	focus := -1
	if v, err := strconv.Atoi(os.Getenv("VERIF_C04_SCHEDULE")); err == nil && v >= 0 {
		focus, n = v, 1
		if r, err := strconv.Atoi(os.Getenv("VERIF_C04_REPEAT")); err == nil && r > 0 {
			n = r
		}
	}
	par := 2 * runtime.GOMAXPROCS(0)
	if par > 32 {
		par = 32
	}
	sem := make(chan struct{}, par)
	var wg sync.WaitGroup
	for i := 0; i < n; i++ {
		wg.Add(1)
		sem <- struct{}{}
		go func(i int) {
			defer wg.Done()
			defer func() { <-sem }()
			if focus >= 0 {
				i = focus
			}
			p := e.params(rng, i)
			r := rng.SplitN("events", i)
			s := &c04Sched{eng: e, p: p, rng: r, S: map[uint64]int64{}, attempts: map[uint64]int{}, stubborn: map[uint64]int{},
				excused: map[uint64]bool{}, tail: p.Tail0, head: p.Head0}
			sr := rng.SplitN("stubborn", i)
			for h := uint64(1); h <= p.MaxH; h++ {
				if sr.Chance(8, 100) {
					s.stubborn[h] = sr.Range(1, 4)
				}
			}
			s.execute()
			run.Count("schedules", 1)
			s.mu.Lock()
			if s.unexpected > 0 {
				run.Count("store_mock/unexpected_calls", s.unexpected)
			}
			if i < 3 || i == n/2 {
				tr := s.trace
				if len(tr) > 40 {
					tr = tr[:40]
				}
				run.Sample(map[string]any{"params": p, "first_events": tr, "heights_sampled": len(s.S), "store_head": s.head, "store_tail": s.tail})
			}
			s.mu.Unlock()
		}(i)
	}
	wg.Wait()
	e.confirmSuspects()
	return e
}
