package checks

import (
	"context"
	"encoding/json"
	"errors"
	"fmt"
	"strings"
	"sync"
	"sync/atomic"
	"testing"
	"time"

	"github.com/ipfs/go-datastore"
	dssync "github.com/ipfs/go-datastore/sync"
	logging "github.com/ipfs/go-log/v2"

	libhead "github.com/celestiaorg/go-header"

	"github.com/celestiaorg/celestia-node/header"
	"github.com/celestiaorg/celestia-node/pruner"
	"github.com/celestiaorg/celestia-node/share"
	"github.com/celestiaorg/celestia-node/zz_verif/vkit"
)

// C14 — pruning removes only data older than the availability window, and all of it.
//
// The real pruner.Service runs over a mock header store (generated chains), a mock / real Pruner
// and a recording datastore. Oracles, all on the Service's boundaries:
//  (1) safety   — at every Pruner.Prune(h): !h.Time().After(head.Time() - window), head read at call time;
//  (2) checkpoint — the persisted and the reported last-pruned height never decrease (restarts included);
//  (3) liveness — within ceil(pruneable/batch)+2 terminating cycles after the failure script ended every
//                 height after the starting point with time < cutoff - blockTime was pruned successfully
//                 or is in the persisted failed set; failed heights are re-attempted by the next cycle;
//  (4) termination — Prune calls of one cycle <= 4*(pruneable+failed)+batch (step bound, no clocks);
//  (5) real store (c14_store_test.go) — archival: only Q4 goes, block stays fully servable; pruned: block
//                 gone; archival->pruned conversion resets the checkpoint once; light: exactly the
//                 sampling result and the listed sample blocks go.

// ---------------------------------------------------------------------------------------------
// generated chains

type c14chain struct {
	n       int
	profile string
	hdrs    []*header.ExtendedHeader // index 1..n
}

func (c *c14chain) time(h uint64) time.Time { return c.hdrs[h].Time() }

var c14Profiles = []string{"equal", "shorter", "longer", "jitter", "bursts", "gaps", "mixed"}

// c14Gap draws the distance to the next block for a profile.
func c14Gap(r *vkit.RNG, profile string, bt time.Duration, st *[2]int) time.Duration {
	jit := func(d time.Duration) time.Duration { // +-25%
		return d - d/4 + time.Duration(r.Int64N(int64(d/2)+1))
	}
	switch profile {
	case "equal":
		return bt
	case "shorter":
		return jit(bt / time.Duration(2+st[0]%5))
	case "longer":
		return jit(bt * time.Duration(2+st[0]%5))
	case "jitter":
		return bt/2 + time.Duration(r.Int64N(int64(bt)+1))
	case "bursts":
		if st[1] > 0 {
			st[1]--
			return time.Millisecond + time.Duration(r.Int64N(int64(bt/20)+1))
		}
		if r.Chance(1, 25) {
			st[1] = r.Range(5, 80)
		}
		return jit(bt)
	case "gaps":
		if r.Chance(1, 40) {
			return bt * time.Duration(r.Range(50, 500))
		}
		return jit(bt)
	}
	return bt
}

func c14GenChain(r *vkit.RNG, n int, bt time.Duration, profile string, base time.Time, dah *share.AxisRoots) *c14chain {
	ch := &c14chain{n: n, profile: profile, hdrs: make([]*header.ExtendedHeader, n+1)}
	t := base
	st := [2]int{r.Intn(5), 0}
	cur := profile
	segLeft := 0
	for h := 1; h <= n; h++ {
		if profile == "mixed" {
			if segLeft == 0 {
				cur = c14Profiles[r.Intn(len(c14Profiles)-1)]
				segLeft = r.Range(10, 200)
				st = [2]int{r.Intn(5), 0}
			}
			segLeft--
		}
		if h > 1 {
			g := c14Gap(r, cur, bt, &st)
			if g < time.Millisecond {
				g = time.Millisecond
			}
			t = t.Add(g)
		}
		ch.hdrs[h] = &header.ExtendedHeader{
			RawHeader: header.RawHeader{ChainID: "c14", Height: int64(h), Time: t},
			DAH:       dah,
		}
	}
	return ch
}

// ---------------------------------------------------------------------------------------------
// mock header store (libhead.Store contract: contiguous tail..head, head only grows, OnDelete
// handlers run before a header disappears and veto the deletion with an error)

type c14hstore struct {
	mu       sync.Mutex
	ch       *c14chain
	head     uint64
	tail     uint64
	handlers []func(context.Context, uint64) error

	onHead    func() // monitor callback (phase attribution), called without mu
	tailCalls atomic.Int64
	headCalls atomic.Int64
	getCalls  atomic.Int64
	rngCalls  atomic.Int64
}

var _ libhead.Store[*header.ExtendedHeader] = (*c14hstore)(nil)

// c14onDeleteKey marks the context the header store passes to its OnDelete handlers.
type c14onDeleteKey struct{}

func (s *c14hstore) bounds() (head, tail uint64) {
	s.mu.Lock()
	defer s.mu.Unlock()
	return s.head, s.tail
}

func (s *c14hstore) headHeader() *header.ExtendedHeader {
	s.mu.Lock()
	defer s.mu.Unlock()
	return s.ch.hdrs[s.head]
}

func (s *c14hstore) advance(to uint64) {
	s.mu.Lock()
	if to > uint64(s.ch.n) {
		to = uint64(s.ch.n)
	}
	if to > s.head {
		s.head = to
	}
	s.mu.Unlock()
}

func (s *c14hstore) clearHandlers() {
	s.mu.Lock()
	s.handlers = nil
	s.mu.Unlock()
}

func (s *c14hstore) Head(ctx context.Context, _ ...libhead.HeadOption[*header.ExtendedHeader]) (*header.ExtendedHeader, error) {
	if err := ctx.Err(); err != nil {
		return nil, err
	}
	s.headCalls.Add(1)
	if s.onHead != nil {
		s.onHead()
	}
	return s.headHeader(), nil
}

func (s *c14hstore) Tail(ctx context.Context) (*header.ExtendedHeader, error) {
	if err := ctx.Err(); err != nil {
		return nil, err
	}
	s.tailCalls.Add(1)
	s.mu.Lock()
	defer s.mu.Unlock()
	return s.ch.hdrs[s.tail], nil
}

func (s *c14hstore) Height() uint64 { h, _ := s.bounds(); return h }

func (s *c14hstore) Get(context.Context, libhead.Hash) (*header.ExtendedHeader, error) {
	return nil, libhead.ErrNotFound // the pruner never asks by hash
}

func (s *c14hstore) Has(context.Context, libhead.Hash) (bool, error) { return false, nil }

func (s *c14hstore) HasAt(_ context.Context, h uint64) bool {
	hd, tl := s.bounds()
	return h >= tl && h <= hd
}

func (s *c14hstore) GetByHeight(ctx context.Context, h uint64) (*header.ExtendedHeader, error) {
	if err := ctx.Err(); err != nil {
		return nil, err
	}
	s.getCalls.Add(1)
	s.mu.Lock()
	defer s.mu.Unlock()
	if h < s.tail || h > s.head {
		return nil, fmt.Errorf("height %d: %w", h, libhead.ErrNotFound)
	}
	return s.ch.hdrs[h], nil
}

func (s *c14hstore) getRange(ctx context.Context, from, to uint64) ([]*header.ExtendedHeader, error) {
	if err := ctx.Err(); err != nil {
		return nil, err
	}
	s.rngCalls.Add(1)
	if from >= to {
		return nil, fmt.Errorf("header/store: invalid range(%d,%d)", from, to)
	}
	s.mu.Lock()
	defer s.mu.Unlock()
	if from < s.tail || to-1 > s.head {
		return nil, fmt.Errorf("range [%d,%d): %w", from, to, libhead.ErrNotFound)
	}
	out := make([]*header.ExtendedHeader, 0, to-from)
	for h := from; h < to; h++ {
		out = append(out, s.ch.hdrs[h])
	}
	return out, nil
}

func (s *c14hstore) GetRangeByHeight(ctx context.Context, from *header.ExtendedHeader, to uint64) ([]*header.ExtendedHeader, error) {
	return s.getRange(ctx, from.Height()+1, to)
}

func (s *c14hstore) GetRange(ctx context.Context, from, to uint64) ([]*header.ExtendedHeader, error) {
	return s.getRange(ctx, from, to)
}

func (s *c14hstore) Append(context.Context, ...*header.ExtendedHeader) error {
	return errors.New("c14hstore: Append not supported")
}

func (s *c14hstore) OnDelete(fn func(context.Context, uint64) error) {
	s.mu.Lock()
	s.handlers = append(s.handlers, fn)
	s.mu.Unlock()
}

// DeleteRange advances the tail like go-header's sequential delete: handler first (header still
// readable), header removed only after every handler returned nil, stop at the first error.
func (s *c14hstore) DeleteRange(ctx context.Context, from, to uint64) error {
	s.mu.Lock()
	tail, head := s.tail, s.head
	hs := append([]func(context.Context, uint64) error(nil), s.handlers...)
	s.mu.Unlock()
	if from != tail || to > head || from >= to {
		return fmt.Errorf("c14hstore: unsupported delete range [%d,%d) with tail %d head %d", from, to, tail, head)
	}
	ctx = context.WithValue(ctx, c14onDeleteKey{}, true)
	for h := from; h < to; h++ {
		if err := ctx.Err(); err != nil {
			return err
		}
		for _, fn := range hs {
			if err := fn(ctx, h); err != nil {
				return fmt.Errorf("on delete handler for %d: %w", h, err)
			}
		}
		s.mu.Lock()
		s.tail = h + 1
		s.mu.Unlock()
	}
	return nil
}

// ---------------------------------------------------------------------------------------------
// recording datastore: every Put of the pruner checkpoint is an observable event

type c14cp struct {
	Last   uint64              `json:"last_pruned_height"`
	Failed map[uint64]struct{} `json:"failed"`
}

const c14cpKey = "/pruner/checkpoint"

type c14recDS struct {
	datastore.Batching
	onCheckpoint func(cp c14cp)
	puts         atomic.Int64
}

func c14NewDS(on func(cp c14cp)) *c14recDS {
	return &c14recDS{Batching: dssync.MutexWrap(datastore.NewMapDatastore()), onCheckpoint: on}
}

func (d *c14recDS) Put(ctx context.Context, k datastore.Key, v []byte) error {
	if k.String() == c14cpKey {
		d.puts.Add(1)
		var cp c14cp
		if err := json.Unmarshal(v, &cp); err == nil && d.onCheckpoint != nil {
			d.onCheckpoint(cp)
		}
	}
	return d.Batching.Put(ctx, k, v)
}

// persisted reads what a restarted node would load.
func (d *c14recDS) persisted(ctx context.Context) (c14cp, bool) {
	b, err := d.Batching.Get(ctx, datastore.NewKey(c14cpKey))
	if err != nil {
		return c14cp{}, false
	}
	var cp c14cp
	if json.Unmarshal(b, &cp) != nil {
		return c14cp{}, false
	}
	return cp, true
}

// ---------------------------------------------------------------------------------------------
// failure scripts of the mock Pruner

type c14script struct {
	Kind  string `json:"kind"` // none | everyk | run | all | random | firstj
	K     int    `json:"k,omitempty"`
	Rem   int    `json:"rem,omitempty"`
	A     uint64 `json:"a,omitempty"`
	B     uint64 `json:"b,omitempty"`
	Until int    `json:"until"` // fails while epoch < Until; -1: for ever
	J     int    `json:"j,omitempty"`
	Salt  uint64 `json:"salt,omitempty"`
	off   bool
}

func (s *c14script) transient() bool { return s.Until >= 0 || s.Kind == "firstj" || s.Kind == "none" }

func (s *c14script) desc() string {
	switch s.Kind {
	case "none":
		return "none"
	case "firstj":
		return fmt.Sprintf("firstj(j=%d)", s.J)
	}
	d := s.Kind
	switch s.Kind {
	case "everyk":
		d += fmt.Sprintf("(k=%d)", s.K)
	case "run":
		d += fmt.Sprintf("(len=%d)", s.B-s.A+1)
	case "random":
		d += fmt.Sprintf("(1/%d)", s.K)
	}
	if s.Until < 0 {
		return d + "/persistent"
	}
	return d + fmt.Sprintf("/transient(%d)", s.Until)
}

// fails decides the outcome of one Prune call (attempt counts earlier attempts on this height).
func (s *c14script) fails(h uint64, epoch, attempt int) bool {
	if s.off || s.Kind == "none" {
		return false
	}
	if s.Kind == "firstj" {
		return attempt < s.J
	}
	if s.Until >= 0 && epoch >= s.Until {
		return false
	}
	switch s.Kind {
	case "everyk":
		return int(h%uint64(s.K)) == s.Rem
	case "run":
		return h >= s.A && h <= s.B
	case "all":
		return true
	case "random":
		x := (h + s.Salt) * 0x9e3779b97f4a7c15
		x ^= x >> 29
		return int(x%uint64(s.K)) == 0
	}
	return false
}

func c14GenScript(r *vkit.RNG, n, batch int, allowNonTerm bool) c14script {
	until := -1
	if r.Chance(3, 5) {
		until = r.Range(1, 5)
	}
	switch r.Intn(10) {
	case 0, 1:
		return c14script{Kind: "none", Until: 0}
	case 2, 3:
		k := r.Range(2, 9)
		return c14script{Kind: "everyk", K: k, Rem: r.Intn(k), Until: until}
	case 4, 5:
		a := uint64(r.Range(1, n))
		l := r.Range(1, max(2, min(n/3, 3*batch)))
		if !allowNonTerm && l >= batch {
			l = batch - 1
		}
		return c14script{Kind: "run", A: a, B: a + uint64(l) - 1, Until: until}
	case 6:
		if !allowNonTerm {
			return c14script{Kind: "firstj", J: 1}
		}
		return c14script{Kind: "all", Until: until}
	case 7:
		return c14script{Kind: "random", K: r.Range(2, 8), Salt: r.Uint64() >> 8, Until: until}
	default:
		return c14script{Kind: "firstj", J: r.Range(1, 2)}
	}
}

// ---------------------------------------------------------------------------------------------
// scenario = one node life: chain, header store, datastore, pruner service(s), monitor state

type c14call struct {
	H     uint64
	Phase string // retry | batch | delete | conc
	Fail  bool
}

type c14params struct {
	Idx       int       `json:"idx"`
	Mode      string    `json:"mode"`
	N         int       `json:"n"`
	Profile   string    `json:"profile"`
	BlockTime string    `json:"block_time"`
	Window    string    `json:"window"`
	WindowCls string    `json:"window_class"`
	Batch     int       `json:"batch"`
	Head0     uint64    `json:"head0"`
	Tail0     uint64    `json:"tail0"`
	Base      string    `json:"base"`
	Script    string    `json:"script"`
	ScriptRaw c14script `json:"script_raw"`
}

type c14scn struct {
	c   *c14
	p   c14params
	r   *vkit.RNG
	ch  *c14chain
	hs  *c14hstore
	ds  *c14recDS
	svc *pruner.Service
	pr  pruner.Pruner // what the service is given (the monitor itself, possibly delegating)

	window time.Duration
	bt     time.Duration
	batch  int
	script c14script
	inner  pruner.Pruner // real pruner to delegate to (store mode); nil = pure mock

	mu             sync.Mutex
	succ           map[uint64]int // successful Prune calls per height ("data is gone")
	att            map[uint64]int // Prune calls per height
	attCycle       map[uint64]int // ... of which made by a pruning cycle (not by on-delete)
	phase          string
	sawHead        bool
	epoch          int
	steps          int
	bound          int
	killed         bool
	cancel         context.CancelFunc
	cyc            []c14call
	conc           bool
	levals         int // scenario-local hot-path counters, see flush
	lcnt           map[string]int
	parallelDelete int // >0: header store deletes with that many workers (opt-in experiment)

	start       uint64 // the pruner's starting point
	reported    uint64
	lastPersist uint64
	havePersist bool
	allowReset  bool
	becameTail  map[uint64]int  // heights that became the header-store tail through deletion -> cycle attempts so far
	dropped     map[uint64]bool // failed heights that left the failed set when their header was deleted
	hmu         sync.Mutex
	hist        []string
	nonterm     bool
	aborted     bool
	cycles      int
}

type c14 struct {
	run  *vkit.Run
	seed uint64
	nscn atomic.Int64
}

// flush moves the scenario-local hot-path counters into the run (the run's mutex is global).
func (s *c14scn) flush() {
	s.mu.Lock()
	ev, cnt := s.levals, s.lcnt
	s.levals, s.lcnt = 0, map[string]int{}
	s.mu.Unlock()
	s.c.run.Eval(ev)
	for k, v := range cnt {
		s.c.run.Count(k, v)
	}
}

func (s *c14scn) note(format string, a ...any) {
	s.hmu.Lock()
	if len(s.hist) < 400 {
		s.hist = append(s.hist, fmt.Sprintf(format, a...))
	}
	s.hmu.Unlock()
}

func (s *c14scn) history() []string {
	s.hmu.Lock()
	defer s.hmu.Unlock()
	return append([]string(nil), s.hist...)
}

func (s *c14scn) witness(extra map[string]any) map[string]any {
	head, tail := s.hs.bounds()
	w := map[string]any{
		"seed": s.c.seed, "scenario": s.p, "head": head, "tail": tail, "starting_point": s.start,
		"history": s.history(),
	}
	for k, v := range extra {
		w[k] = v
	}
	return w
}

// Prune is the mock pruner.Pruner the Service calls; the safety oracle sits here.
func (s *c14scn) Prune(ctx context.Context, eh *header.ExtendedHeader) error {
	if err := ctx.Err(); err != nil {
		return err
	}
	h := eh.Height()
	s.mu.Lock()
	head := s.hs.headHeader() // read at call time; the head only grows
	cut := head.Time().Add(-s.window)
	// attribution: the header store marks the context it hands to OnDelete handlers (the service
	// passes it on); inside a stepped cycle, retries precede the finder's first Head() call
	var phase string
	switch {
	case ctx.Value(c14onDeleteKey{}) != nil:
		phase = "delete"
	case s.conc:
		phase = "cycle(ticker)"
	case s.sawHead:
		phase = "batch"
	default:
		phase = "retry"
	}
	s.levals++
	s.lcnt["prune_calls/"+phase]++
	if eh.Time().After(cut) {
		s.mu.Unlock()
		s.c.run.Violation("C14 block inside the availability window passed to Prune ("+phase+")", s.witness(map[string]any{
			"height": h, "block_time": eh.Time().UTC().Format(time.RFC3339Nano), "head_height": head.Height(),
			"head_time": head.Time().UTC().Format(time.RFC3339Nano), "cutoff": cut.UTC().Format(time.RFC3339Nano),
			"inside_by": eh.Time().Sub(cut).String(),
		}))
		s.mu.Lock()
	}
	attempt := s.att[h]
	s.att[h]++
	epoch := s.epoch
	if s.conc {
		epoch = int(s.hs.tailCalls.Load())
	}
	fail := s.script.fails(h, epoch, attempt)
	if phase != "delete" {
		s.attCycle[h]++
	}
	if phase == "retry" || phase == "batch" {
		s.steps++
		if len(s.cyc) < 1<<16 {
			s.cyc = append(s.cyc, c14call{H: h, Phase: phase, Fail: fail})
		}
		if s.steps > s.bound && !s.killed {
			s.killed = true
			if s.cancel != nil {
				s.cancel()
			}
		}
	}
	inner := s.inner
	s.mu.Unlock()

	var err error
	if fail {
		err = errors.New("c14: scripted prune failure")
	} else if inner != nil {
		err = inner.Prune(ctx, eh)
	}
	s.mu.Lock()
	if err == nil {
		s.succ[h]++
		s.lcnt["prune_ok"]++
	} else {
		s.lcnt["prune_failed"]++
	}
	s.mu.Unlock()
	return err
}

func (s *c14scn) onCheckpoint(cp c14cp) {
	s.mu.Lock()
	defer s.mu.Unlock()
	s.levals++
	s.lcnt["checkpoint_persisted"]++
	if s.havePersist && cp.Last < s.lastPersist {
		if s.allowReset {
			s.c.run.Count("checkpoint_reset_observed", 1)
		} else {
			prev := s.lastPersist
			s.mu.Unlock()
			s.c.run.Violation("C14 persisted last-pruned height decreased", s.witness(map[string]any{"previous": prev, "now": cp.Last}))
			s.mu.Lock()
		}
	}
	s.lastPersist, s.havePersist = cp.Last, true
}

func (s *c14scn) onHead() {
	s.mu.Lock()
	s.sawHead = true
	s.mu.Unlock()
}

// newService creates a Service over the scenario's datastore the way a starting node does.
func (s *c14scn) newService(ctx context.Context) bool {
	s.hs.clearHandlers()
	svc, err := pruner.NewService(s, s.window, s.hs, s.ds, s.bt, pruner.WithPruneCycle(time.Hour))
	if err == nil {
		err = svc.VerifInit(ctx)
	}
	if err != nil {
		s.c.run.Inconclusive("C14 service construction failed: " + err.Error())
		s.aborted = true
		return false
	}
	s.svc = svc
	return true
}

func (s *c14scn) report(ctx context.Context, what string, floor uint64) {
	lp, err := s.svc.LastPruned(ctx)
	if err != nil {
		s.c.run.Inconclusive("C14 LastPruned failed: " + err.Error())
		return
	}
	s.c.run.Eval(1)
	if lp < floor {
		s.c.run.Violation("C14 reported last-pruned height decreased ("+what+")", s.witness(map[string]any{"previous": floor, "now": lp}))
	}
	s.reported = lp
}

func c14has(m map[uint64]int, h uint64) bool { _, ok := m[h]; return ok }

func c14set(xs []uint64) map[uint64]bool {
	m := make(map[uint64]bool, len(xs))
	for _, x := range xs {
		m[x] = true
	}
	return m
}

// cycle runs one synchronous pruning cycle under the step bound and judges it.
func (s *c14scn) cycle(ctx context.Context) (terminated bool) {
	lastIn, failedIn, _ := s.svc.VerifCheckpoint()
	head, tail := s.hs.bounds()
	cutoff := s.ch.time(head).Add(-s.window)
	lp := max(lastIn, tail)
	pruneable := 0
	for h := lp + 1; h <= head && !s.ch.time(h).After(cutoff); h++ {
		pruneable++
	}
	if lp == 1 {
		pruneable++ // the genesis block is re-included by the finder
	}
	bound := 4*(pruneable+len(failedIn)) + s.batch
	if tail > lastIn && tail > s.start {
		s.mu.Lock()
		s.becameTail[tail] = s.attCycle[tail]
		s.mu.Unlock()
	}
	// estimate regime (coverage only)
	regime := "nothing-pruneable"
	if pruneable > 0 {
		est := uint64(0)
		if d := cutoff.Sub(s.ch.time(lp)); d > 0 {
			est = uint64(d / s.bt)
		}
		est = min(est, head-lp, uint64(s.batch))
		switch {
		case est == 0:
			regime = "estimate-zero"
		case int(est) < min(pruneable, s.batch):
			regime = "estimate-short(extension-loop)"
		case int(est) > pruneable:
			regime = "estimate-long(final-cut)"
		default:
			regime = "estimate-exact"
		}
	}

	cctx, cancel := context.WithCancel(ctx)
	s.mu.Lock()
	s.phase, s.sawHead, s.steps, s.bound, s.killed, s.cancel, s.cyc = "cycle", false, 0, bound, false, cancel, s.cyc[:0]
	s.mu.Unlock()
	done := make(chan struct{})
	var pnc any
	var site string
	go func() {
		defer close(done)
		pnc, site = vkit.Recover(func() { s.svc.VerifPrune(cctx) })
	}()
	// a cycle normally takes milliseconds. If it has not returned after three minutes, the stable-state oracle
	// decides: a process in which nothing is runnable and whose goroutine dump does not change cannot finish the
	// cycle any more (a hang: violation); otherwise the machine is merely slow (other scenarios still run) and
	// we keep waiting, up to an outer limit whose firing is inconclusive.
	returned := false
	for waited := 0; waited < 6 && !returned; waited++ {
		wd := time.NewTimer(3 * time.Minute)
		select {
		case <-done:
			returned = true
		case <-wd.C:
			if v, dump := vkit.WaitStable(done, vkit.StableOpts{Polls: 40, Every: 50 * time.Millisecond, MaxWait: 30 * time.Second}); v == "done" {
				returned = true
			} else if v == "hang" {
				cancel()
				s.c.run.Violation("C14 pruning cycle never returns (stable state: nothing can end it): "+strings.Join(vkit.RepoFrames(dump), " | "),
					s.witness(map[string]any{"dump": tailStr(dump, 6000)}))
				s.aborted = true
				return false
			}
		}
		wd.Stop()
	}
	if !returned {
		cancel()
		s.c.run.Inconclusive(fmt.Sprintf("C14 cycle did not return within the outer watchdog although the process kept moving (scenario %d)", s.p.Idx))
		s.aborted = true
		return false
	}
	cancel()
	s.mu.Lock()
	calls := append([]c14call(nil), s.cyc...)
	killed, steps := s.killed, s.steps
	s.phase, s.cancel = "idle", nil
	s.epoch++
	s.cycles++
	s.mu.Unlock()
	s.flush()
	s.c.run.Eval(1)
	s.c.run.Count("cycles", 1)
	s.c.run.Count("cycles/"+regime, 1)
	s.c.run.Max("max_prune_calls_in_one_cycle", steps)
	if pnc != nil {
		s.c.run.Violation("C14 pruning cycle panics @"+site, s.witness(map[string]any{"panic": fmt.Sprint(pnc)}))
		s.aborted = true
		return false
	}

	nfail, nretry := 0, 0
	attempted := map[uint64]bool{}
	for _, cl := range calls {
		attempted[cl.H] = true
		if cl.Fail {
			nfail++
		}
		if cl.Phase == "retry" {
			nretry++
		}
	}
	nb := (len(calls) - nretry + s.batch - 1) / s.batch
	shape := fmt.Sprintf("retry=%s batches=%s fails=%s %s killed=%v", c14bucket(nretry), c14bucket(nb), c14frac(nfail, len(calls)), regime, killed)
	s.c.run.SetAdd("cycle_shapes", shape)
	s.note("cycle#%d head=%d tail=%d cp=%d failed=%d pruneable=%d bound=%d -> calls=%d failed_calls=%d killed=%v", s.cycles, head, tail, lastIn, len(failedIn), pruneable, bound, steps, nfail, killed)
	if steps > 0 {
		s.c.run.Distinct(fmt.Sprintf("%d|%s|%d|cycle%d|%s", s.c.seed, s.p.Mode, s.p.Idx, s.cycles, shape))
	}

	if killed {
		// (4) step bound exceeded: the cycle does not terminate by itself
		s.nonterm = true
		s.c.run.Count("cycles_killed_by_step_bound", 1)
		sig := "C14 cycle exceeds its step bound"
		b := s.batch
		if len(calls) >= 2*b {
			// the last full batch repeats the one before it, call by call: no header after the
			// last-pruned one succeeded, so the finder returns the same batch again
			same, allFail := true, true
			for i := len(calls) - b; i < len(calls); i++ {
				if calls[i].Fail != calls[i-b].Fail || calls[i].H != calls[i-b].H || calls[i].Phase != "batch" {
					same = false
				}
				if !calls[i].Fail && calls[i].H != 1 {
					allFail = false
				}
			}
			if same && allFail {
				sig = "C14 cycle never terminates: a full batch with no success after the last-pruned header is refetched for ever"
			}
		}
		tailCalls := calls
		if len(tailCalls) > 24 {
			tailCalls = tailCalls[len(tailCalls)-24:]
		}
		s.c.run.Violation(sig, s.witness(map[string]any{
			"batch_limit": s.batch, "pruneable_at_cycle_start": pruneable, "failed_at_cycle_start": len(failedIn),
			"step_bound": bound, "prune_calls_when_cancelled": steps, "last_calls": tailCalls,
			"note": "the harness cancelled the cycle context to get out; in the node only Stop ends the loop, and it holds the checkpoint mutex meanwhile",
		}))
		s.report(ctx, "after cycle", s.reported)
		return false
	}
	s.c.run.Count("cycles_terminated", 1)
	if nfail > 0 {
		s.c.run.Count("cycles_with_failures", 1)
	}

	// (3b) failed heights whose header is still there are re-attempted by this cycle
	nretried := 0
	defer func() {
		s.c.run.Eval(nretried)
		s.c.run.Count("failed_retry_checked", nretried)
	}()
	for _, f := range failedIn {
		if f < tail || f > head {
			continue
		}
		nretried++
		if !attempted[f] {
			s.c.run.Violation("C14 failed height not re-attempted by the following cycle", s.witness(map[string]any{"height": f, "failed_set": failedIn}))
			break
		}
	}
	s.report(ctx, "after cycle", s.reported)
	return true
}

func c14bucket(n int) string {
	switch {
	case n == 0:
		return "0"
	case n == 1:
		return "1"
	case n <= 4:
		return "2-4"
	default:
		return "5+"
	}
}

func c14frac(a, n int) string {
	switch {
	case n == 0:
		return "-"
	case a == 0:
		return "none"
	case a == n:
		return "all"
	default:
		return "some"
	}
}

// exactTail is where a correct syncer would put the tail: the first header not older than the cutoff.
func (s *c14scn) exactTail() uint64 {
	head, tail := s.hs.bounds()
	cutoff := s.ch.time(head).Add(-s.window)
	h := tail
	for h < head && s.ch.time(h).Before(cutoff) {
		h++
	}
	return h
}

// deleteTo lets the header store advance its tail to `to` (all deleted headers are out of the window).
func (s *c14scn) deleteTo(ctx context.Context, to uint64) {
	_, tail := s.hs.bounds()
	if to <= tail {
		return
	}
	_, failedBefore, _ := s.svc.VerifCheckpoint()
	if !s.conc {
		s.mu.Lock()
		s.phase = "delete"
		s.mu.Unlock()
	}
	var err error
	if s.parallelDelete > 0 {
		err = s.hs.deleteParallel(ctx, tail, to, s.parallelDelete)
	} else {
		err = s.hs.DeleteRange(ctx, tail, to)
	}
	if !s.conc {
		s.mu.Lock()
		s.phase = "idle"
		s.mu.Unlock()
	}
	_, newTail := s.hs.bounds()
	_, failedAfter, _ := s.svc.VerifCheckpoint()
	after := c14set(failedAfter)
	s.mu.Lock()
	ndrop := 0
	for _, f := range failedBefore {
		if !after[f] && f < newTail && s.succ[f] == 0 {
			s.dropped[f] = true
			ndrop++
		}
	}
	if newTail > tail {
		s.becameTail[newTail] = s.attCycle[newTail]
		if s.conc && s.parallelDelete == 0 {
			// the tail moves header by header while the ticker loop keeps starting cycles: every
			// deleted height was the tail for a moment
			for h := tail + 1; h < newTail; h++ {
				if _, ok := s.becameTail[h]; !ok {
					s.becameTail[h] = s.attCycle[h]
				}
			}
		}
	}
	s.mu.Unlock()
	s.c.run.Count("tail_advances", 1)
	s.c.run.Count("headers_deleted", int(newTail-tail))
	if err != nil {
		s.c.run.Count("tail_advances_vetoed_by_prune_failure", 1)
	}
	s.note("delete [%d,%d) -> tail=%d err=%v failed_before=%d dropped_unpruned=%d", tail, to, newTail, err != nil, len(failedBefore), ndrop)
	if !s.conc {
		s.report(ctx, "after header deletion", s.reported)
	}
}

func (s *c14scn) restart(ctx context.Context, graceful bool) {
	lastMem, failedMem, _ := s.svc.VerifCheckpoint()
	floor := s.reported
	what := "graceful restart"
	if graceful {
		sctx, cancel := context.WithTimeout(ctx, time.Minute)
		err := s.svc.Stop(sctx)
		cancel()
		if err != nil {
			s.c.run.Inconclusive("C14 Stop failed: " + err.Error())
			s.aborted = true
			return
		}
		s.c.run.Count("restarts/graceful", 1)
	} else {
		what = "crash restart"
		s.mu.Lock()
		floor = s.lastPersist
		s.mu.Unlock()
		s.c.run.Count("restarts/crash", 1)
	}
	if !s.newService(ctx) {
		return
	}
	s.report(ctx, what, floor)
	lastNew, failedNew, _ := s.svc.VerifCheckpoint()
	s.note("%s: checkpoint in memory before=%d (failed %d) loaded=%d (failed %d)", what, lastMem, len(failedMem), lastNew, len(failedNew))
	if graceful {
		nf := c14set(failedNew)
		for _, f := range failedMem {
			s.c.run.Eval(1)
			if !nf[f] {
				s.c.run.Violation("C14 failed height lost across graceful restart", s.witness(map[string]any{"height": f}))
			}
		}
	}
}

// pending lists heights the statement obliges the pruner to have dealt with and it has not.
func (s *c14scn) pending(failed map[uint64]bool) []uint64 {
	head, _ := s.hs.bounds()
	cutoff := s.ch.time(head).Add(-s.window)
	var out []uint64
	s.mu.Lock()
	defer s.mu.Unlock()
	for h := s.start + 1; h <= head; h++ {
		if !s.ch.time(h).Add(s.bt).Before(cutoff) {
			break
		}
		if s.succ[h] == 0 && !failed[h] {
			out = append(out, h)
		}
	}
	return out
}

// settle runs the bounded number of cycles the statement allows and then judges liveness.
func (s *c14scn) settle(ctx context.Context) {
	if s.aborted {
		return
	}
	if s.script.transient() {
		s.mu.Lock()
		s.script.off = true
		s.mu.Unlock()
		s.note("failure script ended")
	}
	head, _ := s.hs.bounds()
	cutoff := s.ch.time(head).Add(-s.window)
	todo := 0
	s.mu.Lock()
	for h := s.start + 1; h <= head && !s.ch.time(h).After(cutoff); h++ {
		if s.succ[h] == 0 {
			todo++
		}
	}
	s.mu.Unlock()
	k := (todo+s.batch-1)/s.batch + 2
	used := 0
	for i := 0; i < k; i++ {
		if !s.cycle(ctx) {
			break
		}
		used++
		_, failed, _ := s.svc.VerifCheckpoint()
		if len(s.pending(c14set(failed))) == 0 && i >= 1 {
			break
		}
	}
	if s.aborted {
		return
	}
	if s.nonterm {
		// already reported under (4); "within k terminating cycles" cannot be evaluated
		s.c.run.Count("liveness_not_evaluated_after_nontermination", 1)
		return
	}
	s.judge(ctx, used, k)
}

// judge stops the service regularly and evaluates liveness (3) on what a restarted node would know.
func (s *c14scn) judge(ctx context.Context, used, k int) {
	defer s.flush()
	head, _ := s.hs.bounds()
	cutoff := s.ch.time(head).Add(-s.window)
	sctx, cancel := context.WithTimeout(ctx, time.Minute)
	err := s.svc.Stop(sctx)
	cancel()
	if err != nil {
		s.c.run.Inconclusive("C14 final Stop failed: " + err.Error())
		return
	}
	cp, ok := s.ds.persisted(ctx)
	if !ok {
		s.c.run.Violation("C14 no checkpoint persisted after Stop", s.witness(nil))
		return
	}
	failed := map[uint64]bool{}
	for f := range cp.Failed {
		failed[f] = true
	}
	pend := s.pending(failed)
	_, tail := s.hs.bounds()
	s.c.run.Count("liveness_evaluated_scenarios", 1)
	obliged := 0
	s.mu.Lock()
	for h := s.start + 1; h <= head && s.ch.time(h).Add(s.bt).Before(cutoff); h++ {
		obliged++
	}
	s.mu.Unlock()
	s.c.run.Eval(obliged)
	s.c.run.Count("liveness_heights_checked", obliged)
	s.c.run.Count("liveness_heights_left_failed_recorded", len(failed))
	byClass := map[string][]uint64{}
	s.mu.Lock()
	for _, h := range pend {
		var cls string
		switch {
		case h < tail && (s.dropped[h] || (s.conc && s.att[h] > 0)):
			// (concurrent lives cannot snapshot the failed set around a deletion reliably: a height
			// that failed, is not recorded and whose header is gone is attributed to this class)
			cls = "C14 failed height forgotten once its header is deleted: never pruned, no longer recorded as failed"
		case c14has(s.becameTail, h) && s.attCycle[h] == s.becameTail[h]:
			cls = "C14 block at the new header-store tail is never pruned after the tail overtook the checkpoint"
		case s.parallelDelete > 0 && s.att[h] == 0 && h < tail:
			// opt-in experiment (VERIF_C14_PARALLEL_DELETE): handlers of different heights run concurrently
			cls = "C14 parallel header deletion: on-delete of a lower height is skipped after a concurrent on-delete advanced the checkpoint"
		case s.att[h] > 0:
			cls = "C14 failed height neither pruned nor recorded as failed"
		default:
			cls = "C14 out-of-window block never passed to Prune and not recorded as failed"
		}
		byClass[cls] = append(byClass[cls], h)
	}
	s.mu.Unlock()
	for cls, hs := range byClass {
		show := hs
		if len(show) > 12 {
			show = show[:12]
		}
		det := []map[string]any{}
		s.mu.Lock()
		for _, h := range show {
			det = append(det, map[string]any{"height": h, "older_than_cutoff_by": cutoff.Sub(s.ch.time(h)).String(),
				"prune_attempts": s.att[h], "prune_attempts_by_cycles": s.attCycle[h], "was_header_store_tail": c14has(s.becameTail, h), "left_failed_set_on_header_delete": s.dropped[h]})
		}
		s.mu.Unlock()
		s.c.run.Violation(cls, s.witness(map[string]any{
			"heights": show, "count": len(hs), "details": det, "cycles_after_script_end": used, "allowed_cycles": k,
			"persisted_checkpoint": map[string]any{"last_pruned_height": cp.Last, "failed": len(cp.Failed)},
			"cutoff":               cutoff.UTC().Format(time.RFC3339Nano), "block_time": s.bt.String(),
		}))
	}
	// restart once more: what is still recorded as failed must be retried by the first cycle (3b)
	if len(failed) > 0 && !s.aborted && !s.conc {
		if s.newService(ctx) {
			s.report(ctx, "graceful restart", s.reported)
			s.cycle(ctx)
			sctx, cancel := context.WithTimeout(ctx, time.Minute)
			_ = s.svc.Stop(sctx)
			cancel()
		}
	}
}

// ---------------------------------------------------------------------------------------------
// stepped scenarios

var c14BlockTimes = []time.Duration{time.Second, 6 * time.Second, 12 * time.Second, time.Minute}

func (c *c14) newScenario(r *vkit.RNG, mode string, idx, batch int, allowNonTerm bool, maxN int) *c14scn {
	n := r.Range(40, 600)
	switch r.Intn(8) {
	case 0:
		n = r.Range(2, 40)
	case 1:
		n = r.Range(600, maxN)
	}
	if batch >= 512 && r.Chance(1, 3) {
		n = r.Range(1100, maxN) // more than two full default batches
	}
	n = min(n, maxN)
	bt := vkit.Pick(r, c14BlockTimes)
	profile := vkit.Pick(r, c14Profiles)
	// base: the chain ends around the wall clock ("synced") or far in the past ("node far behind")
	base := time.Date(2023, 3, 1, 0, 0, 0, 0, time.UTC)
	baseCls := "past"
	ch := c14GenChain(r.Split("chain"), n, bt, profile, base, share.EmptyEDSRoots())
	if r.Chance(1, 3) {
		baseCls = "head~now"
		shift := time.Now().UTC().Truncate(time.Second).Sub(ch.time(uint64(n)))
		for h := 1; h <= n; h++ {
			ch.hdrs[h].RawHeader.Time = ch.hdrs[h].RawHeader.Time.Add(shift)
		}
	}
	dur := ch.time(uint64(n)).Sub(ch.time(1))
	var window time.Duration
	wcls := ""
	switch r.Intn(10) {
	case 0:
		wcls, window = "tiny", bt/2
	case 1:
		wcls, window = "longer-than-chain", dur+time.Duration(r.Range(1, 100))*bt
	case 2, 3:
		// cutoff falls exactly on a header time when the head is n
		q := uint64(r.Range(1, n))
		wcls, window = "exact-header-boundary", ch.time(uint64(n)).Sub(ch.time(q))
	default:
		q := uint64(r.Range(1, n))
		wcls, window = "fraction", ch.time(uint64(n)).Sub(ch.time(q))+time.Duration(r.Int64N(int64(bt)))
	}
	if window <= 0 {
		wcls, window = "tiny", bt/2
	}
	head0 := uint64(r.Range(1, n))
	if r.Chance(1, 4) {
		head0 = uint64(r.Range(1, max(1, n/10))) // far behind
	}
	tail0 := uint64(1)
	if r.Chance(2, 5) {
		tail0 = uint64(r.Range(1, int(head0)))
	}
	script := c14GenScript(r.Split("script"), n, batch, allowNonTerm)
	s := &c14scn{
		c: c, r: r, ch: ch, window: window, bt: bt, batch: batch, script: script,
		succ: map[uint64]int{}, att: map[uint64]int{}, attCycle: map[uint64]int{}, becameTail: map[uint64]int{}, dropped: map[uint64]bool{}, lcnt: map[string]int{}, phase: "idle",
		p: c14params{Idx: idx, Mode: mode, N: n, Profile: profile, BlockTime: bt.String(), Window: window.String(), WindowCls: wcls,
			Batch: batch, Head0: head0, Tail0: tail0, Base: baseCls, Script: script.desc(), ScriptRaw: script},
	}
	s.hs = &c14hstore{ch: ch, head: head0, tail: tail0, onHead: s.onHead}
	s.ds = c14NewDS(s.onCheckpoint)
	c.run.Count("scenarios/"+mode, 1)
	c.run.Count("profile/"+profile, 1)
	c.run.Count("window/"+wcls, 1)
	c.run.Count("script/"+script.Kind, 1)
	c.run.Count("base/"+baseCls, 1)
	return s
}

func (c *c14) stepped(ctx context.Context, r *vkit.RNG, idx, batch int) {
	s := c.newScenario(r, "stepped", idx, batch, true, 3000)
	if !s.newService(ctx) {
		return
	}
	s.start, _, _ = s.svc.VerifCheckpoint()
	s.report(ctx, "start", 0)
	s.note("start: head=%d tail=%d checkpoint=%d", s.p.Head0, s.p.Tail0, s.start)
	var ops []string
	nops := r.Range(6, 24)
	for i := 0; i < nops && !s.aborted; i++ {
		head, tail := s.hs.bounds()
		switch x := r.Intn(100); {
		case x < 45:
			ops = append(ops, "c")
			s.cycle(ctx)
		case x < 70:
			if head == uint64(s.p.N) {
				continue
			}
			ops = append(ops, "a")
			to := head + uint64(r.Range(1, max(1, s.p.N/4)))
			if r.Chance(1, 6) {
				to = uint64(s.p.N)
			}
			s.hs.advance(to)
			nh, _ := s.hs.bounds()
			s.note("head %d -> %d", head, nh)
			c.run.Count("head_advances", 1)
		case x < 88:
			et := s.exactTail()
			if et <= tail {
				continue
			}
			ops = append(ops, "d")
			to := et
			if r.Bool() {
				to = tail + uint64(r.Range(1, int(et-tail)))
			}
			s.deleteTo(ctx, to)
		default:
			g := r.Chance(2, 3)
			if g {
				ops = append(ops, "R")
			} else {
				ops = append(ops, "X")
			}
			s.restart(ctx, g)
		}
	}
	if r.Bool() {
		head, _ := s.hs.bounds()
		s.hs.advance(uint64(s.p.N))
		s.note("head %d -> %d (final)", head, s.p.N)
	}
	s.settle(ctx)
	c.run.Distinct(fmt.Sprintf("%d|stepped|%d|%s|%s|%s|%s|%d|%s", c.seed, idx, s.p.Profile, s.p.BlockTime, s.p.WindowCls, s.p.Script, batch, strings.Join(ops, "")))
	if n := c.nscn.Add(1); n%37 == 1 {
		hist := s.history()
		if len(hist) > 30 {
			hist = hist[:30]
		}
		c.run.Sample(map[string]any{"scenario": s.p, "ops": strings.Join(ops, ""), "history_head": hist})
	}
}

// canonical runs three small fixed lives first, so that the recorded witnesses of the defects this
// monitor knows about are minimal and free of unrelated noise (default batch limit 512, block time
// equal to the estimate, no failures except where stated). They are ordinary scenarios judged by
// the ordinary oracles.
func (c *c14) canonical(ctx context.Context) {
	mk := func(idx, n int, head0, tail0 uint64, script c14script) *c14scn {
		bt, window := time.Second, 10*time.Second
		ch := c14GenChain(vkit.NewRNG(1, "canonical"), n, bt, "equal", time.Date(2023, 3, 1, 0, 0, 0, 0, time.UTC), share.EmptyEDSRoots())
		s := &c14scn{
			c: c, r: vkit.NewRNG(1, "canonical"), ch: ch, window: window, bt: bt, batch: 512, script: script,
			succ: map[uint64]int{}, att: map[uint64]int{}, attCycle: map[uint64]int{}, becameTail: map[uint64]int{}, dropped: map[uint64]bool{}, lcnt: map[string]int{}, phase: "idle",
			p: c14params{Idx: idx, Mode: "canonical", N: n, Profile: "equal", BlockTime: bt.String(), Window: window.String(), WindowCls: "10 blocks",
				Batch: 512, Head0: head0, Tail0: tail0, Base: "past", Script: script.desc(), ScriptRaw: script},
		}
		s.hs = &c14hstore{ch: ch, head: head0, tail: tail0, onHead: s.onHead}
		s.ds = c14NewDS(s.onCheckpoint)
		c.run.Count("scenarios/canonical", 1)
		return s
	}
	begin := func(s *c14scn) bool {
		if !s.newService(ctx) {
			return false
		}
		s.start, _, _ = s.svc.VerifCheckpoint()
		s.report(ctx, "start", 0)
		s.note("start: head=%d tail=%d checkpoint=%d", s.p.Head0, s.p.Tail0, s.start)
		return true
	}
	adv := func(s *c14scn, to uint64) {
		head, _ := s.hs.bounds()
		s.hs.advance(to)
		s.note("head %d -> %d", head, to)
	}
	// (a) the header store overtakes the checkpoint: block 36 becomes the tail and is never pruned
	if s := mk(1, 60, 40, 1, c14script{Kind: "none"}); begin(s) {
		s.cycle(ctx)        // head 40, cutoff t(30): prunes 1..30
		adv(s, 50)          // cutoff t(40)
		s.deleteTo(ctx, 36) // the syncer is ahead of the pruner: on-delete prunes 31..35, tail=36, checkpoint=35
		s.cycle(ctx)        // checkpoint jumps to the tail: block 36 counts as pruned without a Prune call; 37..40 pruned
		adv(s, 60)          // cutoff t(50): block 36 is far outside the window now
		s.cycle(ctx)        // 41..50
		s.deleteTo(ctx, 45) // header 36 goes: on-delete skips it (36 <= checkpoint)
		s.settle(ctx)
	}
	// (b) a failed height whose header is deleted is forgotten although pruning it would now succeed
	if s := mk(2, 60, 40, 1, c14script{Kind: "run", A: 5, B: 5, Until: 2}); begin(s) {
		s.cycle(ctx)        // 1..30 pruned except 5 -> failed={5}, checkpoint=30
		s.cycle(ctx)        // the retry of 5 fails again; the failure script ends here (epoch 2)
		s.deleteTo(ctx, 20) // header 5 deleted: removed from failed, not pruned (5 <= checkpoint)
		adv(s, 60)
		s.settle(ctx)
	}
	// (c) one full default batch (512 heights) fails: the cycle refetches it for ever
	if s := mk(3, 1200, 1100, 5, c14script{Kind: "run", A: 6, B: 600, Until: 1}); begin(s) {
		s.cycle(ctx)
		s.settle(ctx)
	}
}

func TestC14(t *testing.T) {
	run := vkit.NewRun(t, "C14", "fault_enumeration",
		"cases = node lives: (generated chain: length x block-time profile x configured block time x window class x wall-clock offset) x "+
			"(batch limit) x (prune failure script) x (op sequence of cycles, head advances, header-store tail advances with on-delete "+
			"pruning, graceful/crash restarts) + concurrent lives under the race detector + real-store lives (archival, pruned, "+
			"archival->pruned, light); evaluations = oracle evaluations (every Prune call, cycle, persisted checkpoint, obliged height); "+
			"distinct = distinct (scenario, cycle, cycle shape) with at least one Prune call + distinct scenarios; non-trivial = the cycle "+
			"called the Pruner at least once")
	defer run.Finish()
	c := &c14{run: run, seed: vkit.Seed()}
	rng := vkit.NewRNG(c.seed, "C14")
	ctx := context.Background()

	// the pruner logs every failed Prune at error level: hundreds of thousands of lines here
	for _, l := range []string{"pruner/service", "share/full", "share/light", "module/pruner"} {
		_ = logging.SetLogLevel(l, "fatal")
		defer logging.SetLogLevel(l, "error") //nolint:errcheck
	}
	phase := map[string]float64{}
	t0 := time.Now()
	lap := func(name string) { phase[name] = time.Since(t0).Seconds(); t0 = time.Now() }
	defer func() { run.Extra("phase_wall_seconds", phase) }()

	perBatch := vkit.Scale(50, 1000)
	prev := pruner.VerifSetMaxHeadersPerLoop(512)
	defer pruner.VerifSetMaxHeadersPerLoop(prev)
	c.canonical(ctx)
	lap("canonical")
	// maxHeadersPerLoop is a package variable: one batch limit per group, groups run one after another
	for _, batch := range []int{2, 3, 8, 512} {
		pruner.VerifSetMaxHeadersPerLoop(batch)
		var wg sync.WaitGroup
		sem := make(chan struct{}, 16)
		for i := 0; i < perBatch; i++ {
			wg.Add(1)
			sem <- struct{}{}
			go func(i int) {
				defer wg.Done()
				defer func() { <-sem }()
				c.stepped(ctx, rng.SplitN(fmt.Sprintf("stepped/b%d", batch), i), batch*10000+i, batch)
			}(i)
		}
		wg.Wait()
		lap(fmt.Sprintf("stepped/batch=%d", batch))
	}
	for _, batch := range []int{3, 512} {
		pruner.VerifSetMaxHeadersPerLoop(batch)
		c.concurrentGroup(ctx, rng.Split(fmt.Sprintf("conc/b%d", batch)), batch, vkit.Scale(24, 150))
		lap(fmt.Sprintf("concurrent/batch=%d", batch))
	}
	pruner.VerifSetMaxHeadersPerLoop(512)
	c.storeGroup(ctx, t, rng.Split("store"))
	lap("store+light")

	run.Require("cycles_terminated", 500)
	run.Require("prune_ok", 5000)
	run.Require("prune_failed", 200)
	run.Require("failed_retry_checked", 100)
	run.Require("liveness_evaluated_scenarios", 50)
	run.Require("liveness_heights_checked", 2000)
	run.Require("restarts/graceful", 20)
	run.Require("restarts/crash", 10)
	run.Require("tail_advances", 30)
	run.Require("cycles/estimate-short(extension-loop)", 10)
	run.Require("cycles/estimate-long(final-cut)", 10)
	run.Require("conc/scenarios_settled", 12)
	run.Require("store/blocks_checked", 20)
	run.Assume("the header store is correct: contiguous tail..head, head time only grows, block times strictly increase, it deletes " +
		"only headers older than the window and calls OnDelete handlers before a header disappears")
	run.Assume("a block whose time equals head time - window exactly is treated as outside the window (the finder prunes it)")
	run.Assume("mock Pruner: success means the data is gone; prune failures follow a script fixed per scenario")
}
