package checks

import (
	"bytes"
	"context"
	"encoding/json"
	"errors"
	"fmt"
	"os"
	"sort"
	"strings"
	"sync"
	"testing"

	"github.com/ipfs/go-datastore"

	"github.com/celestiaorg/celestia-node/header"
	"github.com/celestiaorg/celestia-node/share/availability"
	"github.com/celestiaorg/celestia-node/share/shwap"
	"github.com/celestiaorg/celestia-node/zz_verif/vkit"
)

// C03 — a light node calls a block available only after verifying its whole sample set.
//
// Observed: the getter boundary of the real light.ShareAvailability (requested coordinates in,
// positional samples + error out), its return value, and the persisted result after a graceful
// Close. Oracle, per data root, over the observed total order of getter calls (the monitor checks
// that calls for one block never overlap; if they do it falls back to the safety half):
//
//	R1 = D, |D| = min(n, (2w)²), distinct, in range
//	R(k+1) ⊇ R(k) \ V(k) and R(k+1) ⊆ D      (pending coordinates are re-requested, as the same
//	                                          coordinates; the real code requests exactly R(k)\V(k))
//	V(k) = positions whose returned sample is non-empty AND verifies against the header AND equals
//	       the reference cell
//	SharesAvailable == nil  ⇒  D ⊆ ⋃V(k)
//	nil for empty blocks, ErrOutsideSamplingWindow outside the window
//
// After a crash-restart (fresh instance, no Close: buffered writes are lost by design) only the
// safety half is demanded: the next request is either a continuation (pending ⊆ R ⊆ D) or a fresh
// draw that starts a new epoch.

type c03 struct {
	run *vkit.Run
}

type c03Coord = shwap.SampleCoords

type c03Set map[c03Coord]struct{}

func c03SetOf(cs []c03Coord) c03Set {
	s := make(c03Set, len(cs))
	for _, c := range cs {
		s[c] = struct{}{}
	}
	return s
}

func (s c03Set) clone() c03Set {
	o := make(c03Set, len(s))
	for k := range s {
		o[k] = struct{}{}
	}
	return o
}

func (s c03Set) subsetOf(o c03Set) bool {
	for k := range s {
		if _, ok := o[k]; !ok {
			return false
		}
	}
	return true
}

func (s c03Set) equal(o c03Set) bool { return len(s) == len(o) && s.subsetOf(o) }

func (s c03Set) minus(o c03Set) c03Set {
	out := c03Set{}
	for k := range s {
		if _, ok := o[k]; !ok {
			out[k] = struct{}{}
		}
	}
	return out
}

func (s c03Set) str() string {
	l := make([]c03Coord, 0, len(s))
	for k := range s {
		l = append(l, k)
	}
	sort.Slice(l, func(i, j int) bool {
		if l[i].Row != l[j].Row {
			return l[i].Row < l[j].Row
		}
		return l[i].Col < l[j].Col
	})
	var b strings.Builder
	for i, k := range l {
		if i > 0 {
			b.WriteByte(' ')
		}
		if i == 24 {
			fmt.Fprintf(&b, "…(+%d)", len(l)-i)
			break
		}
		fmt.Fprintf(&b, "%d:%d", k.Row, k.Col)
	}
	return "{" + b.String() + "}"
}

// c03Root is the model of one block (data root) inside one history.
type c03Root struct {
	name     string
	sq       *vkit.Square
	hdr      *header.ExtendedHeader
	edsW     int
	want     int  // min(n, area) for the sample count the running instance is configured with
	nChanged bool // the sample count changed with the last restart and no request was seen since
	kind     string
	empty    bool
	inWindow bool

	drawn       bool
	D           c03Set
	pending     c03Set
	U           c03Set // validly served at any time
	invalidLast c03Set // returned non-empty but invalid by the previous getter result
	invalidEver c03Set
	draws       []c03Set // every draw ever observed (safety mode)

	inflight    int
	unordered   bool
	crashed     bool   // a crash-restart happened since the last getter call for this root
	restarted   bool   // a graceful restart happened since the last getter call for this root
	lastShape   string // shape of the previous getter result
	getterCalls int
	burstCalls  int
}

type c03Call struct {
	id    int
	rt    *c03Root
	burst bool
	ctl   *c03Ctx
	pre   string
	label string // context description for the event log when ctl is nil (e2e: real deadline)
	gets  int
}

type c03CallKey struct{}

// c03Mon is the per-history monitor. Every event is applied to the model under mu, which also
// gives the logical order of events.
type c03Mon struct {
	c     *c03
	mode  string // "scripted" | "probe" | "e2e"
	stack string // getter stack label used in signatures
	mu    sync.Mutex
	roots map[string]*c03Root
	log   []string
	desc  any
	calls int
}

func (c *c03) newMon(mode, stack string, desc any) *c03Mon {
	return &c03Mon{c: c, mode: mode, stack: stack, roots: map[string]*c03Root{}, desc: desc}
}

func (m *c03Mon) addRoot(name string, sq *vkit.Square, hdr *header.ExtendedHeader, n int, kind string) *c03Root {
	w := 2 * sq.W
	rt := &c03Root{name: name, sq: sq, hdr: hdr, edsW: w, want: min(n, w*w), kind: kind,
		empty:    kind == "empty",
		inWindow: kind != "out" && kind != "out-edge",
		U:        c03Set{}, invalidLast: c03Set{}, invalidEver: c03Set{}, pending: c03Set{}, D: c03Set{}}
	m.mu.Lock()
	m.roots[string(hdr.DAH.Hash())] = rt
	m.mu.Unlock()
	return rt
}

func (m *c03Mon) logf(format string, a ...any) {
	if len(m.log) < 400 {
		m.log = append(m.log, fmt.Sprintf(format, a...))
	}
}

func (m *c03Mon) note(s string) {
	m.mu.Lock()
	m.logf("%s", s)
	m.mu.Unlock()
}

func (m *c03Mon) violate(sig string, rt *c03Root, extra map[string]any) {
	d := map[string]any{"history": m.desc, "events": append([]string(nil), m.log...), "seed": vkit.Seed(), "mode": m.mode, "getter": m.stack}
	if rt != nil {
		d["block"] = map[string]any{"name": rt.name, "square": rt.sq.Desc(), "eds_width": rt.edsW, "min(n,area)": rt.want, "kind": rt.kind,
			"D": rt.D.str(), "pending": rt.pending.str(), "validly_served": rt.U.str(), "returned_non_empty_but_invalid": rt.invalidEver.str()}
	}
	for k, v := range extra {
		d[k] = v
	}
	m.c.run.Violation(sig, d)
}

// unverifiedCounted: the implementation treats coordinates as sampled whose only non-empty samples
// failed independent verification. In probe mode (the scripted getter deliberately breaks the
// getter contract) this is recorded, not judged.
func (m *c03Mon) unverifiedCounted(rt *c03Root, coords c03Set, where string) {
	m.c.run.Count(m.mode+"/unverified_sample_counted/"+where, 1)
	if m.mode == "probe" {
		return
	}
	m.violate("C03 unverified sample counted as sampled (getter: "+m.stack+")", rt, map[string]any{"where": where, "coordinates": coords.str()})
}

func (m *c03Mon) saCall(call *c03Call) {
	m.mu.Lock()
	defer m.mu.Unlock()
	m.calls++
	call.id = m.calls
	ctx := "plain"
	if call.ctl != nil && call.ctl.hasDeadline {
		ctx = "deadline"
	}
	if call.pre != "" {
		ctx += "," + call.pre
	}
	if call.label != "" {
		ctx = call.label
	}
	b := ""
	if call.burst {
		b = " (burst)"
	}
	m.logf("call#%d SharesAvailable(%s) ctx=%s%s", call.id, call.rt.name, ctx, b)
}

func c03ErrClass(err error) string {
	switch {
	case err == nil:
		return "nil"
	case errors.Is(err, availability.ErrOutsideSamplingWindow):
		return "ErrOutsideSamplingWindow"
	case errors.Is(err, context.Canceled):
		return "Canceled"
	case errors.Is(err, context.DeadlineExceeded):
		return "DeadlineExceeded"
	case strings.Contains(err.Error(), "not available"):
		return "ErrNotAvailable"
	default:
		return "other"
	}
}

// saReturn applies the verdict part of the oracle to a returned SharesAvailable call.
func (m *c03Mon) saReturn(call *c03Call, err error) {
	m.mu.Lock()
	defer m.mu.Unlock()
	rt := call.rt
	cls := c03ErrClass(err)
	m.logf("ret#%d %s -> %s (getter calls made: %d)", call.id, rt.name, cls, call.gets)
	run := m.c.run
	run.Eval(1)
	run.Count(m.mode+"/outcome/"+rt.kindClass()+"/"+cls, 1)
	if cls == "other" {
		m.logf("  error text: %v", err)
	}
	switch {
	case rt.empty:
		if err != nil && rt.inWindow {
			m.violate("C03 empty block not reported available", rt, map[string]any{"err": fmt.Sprint(err)})
		}
		return
	case !rt.inWindow:
		if !errors.Is(err, availability.ErrOutsideSamplingWindow) {
			m.violate("C03 header outside the sampling window not refused with ErrOutsideSamplingWindow", rt,
				map[string]any{"err": fmt.Sprint(err), "header_time": rt.hdr.Time().String()})
		}
		return
	}
	if errors.Is(err, availability.ErrOutsideSamplingWindow) {
		m.violate("C03 header inside the sampling window refused as outside", rt, map[string]any{"header_time": rt.hdr.Time().String()})
		return
	}
	if err != nil {
		return
	}
	// available
	if !rt.drawn {
		m.violate("C03 available without any coordinate ever requested", rt, nil)
		return
	}
	// safety: some set that was drawn for this block (the draw of the current epoch; after a
	// crash-restart or overlapping calls possibly another one) has been validly served completely
	var closest, unverified c03Set
	enough := false
	for _, d := range rt.draws {
		if len(d) < rt.want {
			continue // a set drawn under a smaller sample count cannot carry the configured one
		}
		enough = true
		missing := d.minus(rt.U)
		if len(missing) == 0 {
			run.Count(m.mode+"/available/verified", 1)
			return
		}
		if closest == nil || len(missing) < len(closest) {
			closest = missing
		}
		if unverified == nil && missing.subsetOf(rt.invalidEver) {
			unverified = missing
		}
	}
	if unverified != nil {
		m.unverifiedCounted(rt, unverified, "available-returned")
		return
	}
	if !enough {
		m.violate("C03 available although fewer distinct coordinates than min(sample count, area) were ever drawn and verified [sample count raised across a restart]", rt,
			map[string]any{"configured_min(n,area)": rt.want, "validly_served_ever": len(rt.U)})
		return
	}
	m.violate("C03 available although drawn coordinates were never validly served (last getter result: "+rt.lastShape+")", rt,
		map[string]any{"never_validly_served": closest.str(), "overlapping_calls_seen": rt.unordered})
}

func (rt *c03Root) kindClass() string {
	switch {
	case rt.empty:
		return "empty"
	case !rt.inWindow:
		return "outside"
	default:
		return "inside"
	}
}

type c03GEv struct {
	rt   *c03Root
	idxs []c03Coord
	call *c03Call
}

// getterCall applies the request part of the oracle: what is requested now must be what is owed.
func (m *c03Mon) getterCall(hdr *header.ExtendedHeader, idxs []c03Coord, call *c03Call) *c03GEv {
	m.mu.Lock()
	defer m.mu.Unlock()
	run := m.c.run
	rt := m.roots[string(hdr.DAH.Hash())]
	if rt == nil {
		run.Count(m.mode+"/getter/unknown_root", 1)
		return &c03GEv{}
	}
	ev := &c03GEv{rt: rt, idxs: append([]c03Coord(nil), idxs...), call: call}
	if call != nil {
		call.gets++
	}
	req := c03SetOf(idxs)
	rt.getterCalls++
	m.logf("  getter#%d(%s) request %d: %s", rt.getterCalls, rt.name, len(idxs), req.str())
	run.Eval(1)
	run.Count(m.mode+"/getter/calls", 1)
	if !rt.inWindow || rt.empty {
		run.Count(m.mode+"/getter/calls_for_"+rt.kindClass()+"_block", 1)
	}
	bad := ""
	if len(req) != len(idxs) {
		bad = "duplicate coordinates"
	}
	for _, c := range idxs {
		if c.Row < 0 || c.Col < 0 || c.Row >= rt.edsW || c.Col >= rt.edsW {
			bad = "coordinate outside the extended square"
		}
	}
	if bad != "" {
		m.violate("C03 requested set malformed: "+bad, rt, map[string]any{"request": fmt.Sprint(idxs)})
	}
	transition := "retry"
	switch {
	case rt.crashed:
		transition = "crash-restart"
	case rt.restarted:
		transition = "graceful-restart"
	case call != nil && call.burst:
		transition = "concurrent"
		rt.burstCalls++
	}
	if rt.inflight > 0 {
		if !rt.unordered {
			run.Count(m.mode+"/session/roots_with_overlapping_getter_calls", 1)
		}
		rt.unordered = true
		m.logf("  (overlaps a getter call in flight for the same block: safety half only from here on)")
	}
	rt.inflight++
	run.Count(m.mode+"/session/getter_calls_checked_for_overlap", 1)
	defer func() { rt.crashed, rt.restarted = false, false }()

	freshOK := len(req) == rt.want && bad == ""
	switch {
	case rt.nChanged && !rt.unordered:
		// first request under another sample count: what an instance does with a result stored under the old
		// count (continue it, refuse it, draw again) is not what the statement is about; the request is
		// recorded as a draw and the safety half keeps judging "available"
		rt.nChanged = false
		run.Count(m.mode+"/chain/restart-with-another-sample-count/request-recorded", 1)
		rt.drawn, rt.D, rt.pending = true, req.clone(), req.clone()
		rt.draws = append(rt.draws, req.clone())
	case rt.unordered:
		known := false
		for _, d := range rt.draws {
			if req.subsetOf(d) {
				known = true
			}
		}
		if !known && rt.drawn && rt.inflight > 1 && transition != "crash-restart" {
			m.violate("C03 a call for a block whose check is still in flight requests a coordinate set of its own (pending coordinates are not re-requested as the same coordinates)", rt,
				map[string]any{"requested_now": req.str(), "owed": rt.pending.str(), "getter_calls_in_flight_for_the_block": rt.inflight})
		}
		if !known {
			rt.draws = append(rt.draws, req.clone())
			rt.drawn = true
		}
	case !rt.drawn:
		if !freshOK && bad == "" {
			m.violate("C03 first request is not min(n, area) coordinates", rt, map[string]any{"requested": len(req), "expected": rt.want})
		}
		run.Count(m.mode+"/draw/first", 1)
		run.Distinct(fmt.Sprintf("%s|draw|%d|%s", m.mode, rt.edsW, req.str()))
		rt.drawn, rt.D, rt.pending = true, req.clone(), req.clone()
		rt.draws = append(rt.draws, req.clone())
	case transition == "crash-restart":
		switch {
		case req.equal(rt.pending):
			run.Count(m.mode+"/chain/crash-restart/continued_exactly", 1)
		case rt.pending.subsetOf(req) && req.subsetOf(rt.D):
			run.Count(m.mode+"/chain/crash-restart/continued_from_older_state", 1)
			rt.pending = req.clone()
		case req.subsetOf(rt.D) && rt.pending.minus(req).subsetOf(rt.invalidEver):
			m.unverifiedCounted(rt, rt.pending.minus(req), "dropped-from-next-request")
			rt.pending = req.clone()
		case freshOK:
			run.Count(m.mode+"/chain/crash-restart/fresh_draw", 1)
			rt.D, rt.pending = req.clone(), req.clone()
			rt.draws = append(rt.draws, req.clone())
		default:
			m.violate("C03 request after crash-restart is neither a continuation nor a fresh draw", rt, map[string]any{"request": req.str()})
			rt.D, rt.pending = req.clone(), req.clone()
			rt.draws = append(rt.draws, req.clone())
		}
	default:
		run.Count(m.mode+"/chain/"+transition+"/checked", 1)
		missing := rt.pending.minus(req) // owed but not re-requested
		extra := req.minus(rt.pending)
		switch {
		case len(missing) == 0 && len(extra) == 0:
			run.Count(m.mode+"/chain/"+transition+"/exact", 1)
			run.Count(m.mode+"/chain/after/"+rt.lastShape, 1)
		case len(missing) == 0 && extra.subsetOf(rt.D):
			// every pending coordinate is re-requested, plus already verified ones of the same draw:
			// not forbidden by the statement
			run.Count(m.mode+"/chain/"+transition+"/superset_within_draw", 1)
		case len(extra) == 0 && missing.subsetOf(rt.invalidLast):
			m.unverifiedCounted(rt, missing, "dropped-from-next-request")
			rt.pending = req.clone()
		case !extra.subsetOf(rt.D):
			what := "pending coordinates replaced by other coordinates"
			if freshOK {
				what = "pending coordinates replaced by a fresh draw"
			}
			m.violate(fmt.Sprintf("C03 %s after a %s getter result [%s]", what, rt.lastShape, transition), rt,
				map[string]any{"requested_now": req.str(), "owed": rt.pending.str(), "not_re_requested": missing.str(), "new_coordinates": extra.minus(rt.D).str()})
			rt.D, rt.pending = req.clone(), req.clone() // follow the implementation: one report per occurrence
			rt.draws = append(rt.draws, req.clone())
		default:
			m.violate(fmt.Sprintf("C03 pending coordinate not re-requested after a %s getter result [%s]", rt.lastShape, transition), rt,
				map[string]any{"requested_now": req.str(), "owed": rt.pending.str(), "not_re_requested": missing.str()})
			rt.pending = req.clone()
		}
	}
	return ev
}

// getterReturn computes V(k) independently and advances the model.
func (m *c03Mon) getterReturn(ev *c03GEv, smpls []shwap.Sample, err error) {
	if ev.rt == nil {
		return
	}
	// verification outside the lock (pure), bookkeeping inside
	rt := ev.rt
	type cls struct{ empty, valid bool }
	res := make([]cls, len(ev.idxs))
	positional := len(smpls) == len(ev.idxs)
	if positional {
		for i, s := range smpls {
			if s.IsEmpty() {
				res[i].empty = true
				continue
			}
			c := ev.idxs[i]
			if c.Row < 0 || c.Col < 0 || c.Row >= rt.edsW || c.Col >= rt.edsW {
				continue
			}
			ok := false
			vkit.Recover(func() { ok = s.Verify(rt.hdr.DAH, c.Row, c.Col) == nil })
			res[i].valid = ok && bytes.Equal(s.ToBytes(), rt.sq.Cell(c.Row, c.Col))
		}
	}
	m.mu.Lock()
	defer m.mu.Unlock()
	run := m.c.run
	rt.inflight--
	rt.invalidLast = c03Set{}
	nValid, nInvalid := 0, 0
	if positional {
		for i, r := range res {
			switch {
			case r.empty:
			case r.valid:
				nValid++
				rt.U[ev.idxs[i]] = struct{}{}
				delete(rt.pending, ev.idxs[i])
			default:
				nInvalid++
				rt.invalidLast[ev.idxs[i]] = struct{}{}
				rt.invalidEver[ev.idxs[i]] = struct{}{}
			}
		}
	}
	shape := ""
	switch {
	case len(smpls) == 0 && len(ev.idxs) > 0:
		shape = "zero-length"
	case !positional:
		shape = "length-mismatch"
		run.Count(m.mode+"/getter/length_mismatch", 1)
	case nValid == 0 && nInvalid == 0:
		shape = "nothing-served"
	case nValid == len(ev.idxs):
		shape = "everything-served"
	case nInvalid > 0:
		shape = "invalid-samples"
	default:
		shape = "partial"
	}
	rt.lastShape = shape
	ec := "ok"
	switch {
	case err == nil:
	case errors.Is(err, context.Canceled):
		ec = "canceled"
	case errors.Is(err, context.DeadlineExceeded):
		ec = "deadline"
	default:
		ec = "error"
	}
	run.Count(m.mode+"/getter/result/"+shape+"+"+ec, 1)
	if nInvalid > 0 {
		run.Count(m.mode+"/getter/returned_invalid_non_empty_samples", nInvalid)
	}
	m.logf("  getter#%d(%s) result %s+%s: valid %d, invalid-non-empty %d of %d; still owed %d", rt.getterCalls, rt.name, shape, ec, nValid, nInvalid, len(ev.idxs), len(rt.pending))
}

func (m *c03Mon) restart(kind string, newN int) {
	m.mu.Lock()
	defer m.mu.Unlock()
	m.logf("-- %s --", kind)
	if newN > 0 {
		m.logf("-- the new instance is configured with sample count %d --", newN)
		m.c.run.Count(m.mode+"/restart/with-another-sample-count", 1)
	}
	for _, rt := range m.roots {
		if newN > 0 {
			rt.want, rt.nChanged = min(newN, rt.edsW*rt.edsW), true
		}
		if kind == "crash-restart" {
			rt.crashed = true
		} else {
			rt.restarted = true
		}
	}
	m.c.run.Count(m.mode+"/restart/"+kind, 1)
}

// checkPersisted reads the stored result after a graceful Close: a coordinate stored as available
// must have been validly served.
func (m *c03Mon) checkPersisted(base datastore.Datastore) {
	m.mu.Lock()
	defer m.mu.Unlock()
	run := m.c.run
	for _, rt := range m.roots {
		if rt.empty || !rt.inWindow {
			continue
		}
		key := datastore.NewKey("sampling_result").Child(datastore.NewKey(rt.hdr.DAH.String()))
		data, err := base.Get(context.Background(), key)
		if err != nil {
			if rt.drawn {
				run.Count(m.mode+"/persisted/absent_although_drawn", 1)
			} else {
				run.Count(m.mode+"/persisted/absent_never_drawn", 1)
			}
			continue
		}
		var res struct {
			Available []c03Coord `json:"available"`
			Remaining []c03Coord `json:"remaining"`
		}
		if json.Unmarshal(data, &res) != nil {
			run.Count(m.mode+"/persisted/unparsed", 1)
			continue
		}
		run.Count(m.mode+"/persisted/read", 1)
		if rt.unordered {
			continue
		}
		av, rem := c03SetOf(res.Available), c03SetOf(res.Remaining)
		if rem.equal(rt.pending) {
			run.Count(m.mode+"/persisted/remaining_equals_owed", 1)
		} else {
			run.Count(m.mode+"/persisted/remaining_differs_from_owed", 1)
		}
		if bad := av.minus(rt.U); len(bad) > 0 {
			if bad.subsetOf(rt.invalidEver) {
				m.unverifiedCounted(rt, bad, "persisted-as-available")
			} else {
				m.violate("C03 persisted result lists a coordinate as available that was never validly served", rt, map[string]any{"coordinates": bad.str()})
			}
		}
	}
}

// c03RecGetter records the getter boundary around any shwap.Getter (scripted or real).
type c03RecGetter struct {
	shwap.Getter
	mon *c03Mon
}

func (g *c03RecGetter) GetSamples(ctx context.Context, hdr *header.ExtendedHeader, idxs []shwap.SampleCoords) ([]shwap.Sample, error) {
	call, _ := ctx.Value(c03CallKey{}).(*c03Call)
	ev := g.mon.getterCall(hdr, idxs, call)
	smpls, err := g.Getter.GetSamples(ctx, hdr, idxs)
	g.mon.getterReturn(ev, smpls, err)
	return smpls, err
}

func TestC03(t *testing.T) {
	if os.Getenv("C03_CHILD") != "" {
		c03child(t)
		return
	}
	_ = os.Unsetenv("CELESTIA_OVERRIDE_AVAILABILITY_WINDOW")
	run := vkit.NewRun(t, "C03", "exploration",
		"cases = histories of the real light.ShareAvailability over a recording getter: (1-3 blocks: width 1..16 × n ∈ {1,4,16,64} × inside/outside window/empty) × "+
			"(getter script over {serve none|one|all-but-one|all|random subset ± error, nil slice + error, deadline, cancellation mid-call, each returning nil or a positional partial result}) × "+
			"(steps: single calls with plain/deadline/pre-cancelled contexts, bursts of 2-8 concurrent callers on the same and on different heights, graceful restart, crash-restart); "+
			"+ draw statistics over fresh roots and across processes; + the real shrex getter (alone and behind the CascadeGetter) against scripted byzantine peers. "+
			"evaluations = SharesAvailable returns + getter requests judged; distinct = distinct (history script, step list) shapes + distinct observed first draws")
	defer run.Finish()
	c := &c03{run: run}
	rng := vkit.NewRNG(vkit.Seed(), "C03")

	run.Count("scripted/session/roots_with_overlapping_getter_calls", 0) // the per-height session must serialise: expected to stay 0
	pool := c03NewPool(rng.Split("pool"))
	var wg sync.WaitGroup
	parts := os.Getenv("C03_PARTS") // debugging aid: "hist,draw,e2e" (default: all; a partial run ends inconclusive)
	part := func(name string, f func()) {
		if parts != "" && !strings.Contains(parts, name) {
			return
		}
		wg.Add(1)
		go func() { defer wg.Done(); f() }()
	}
	part("hist", func() { c.histories(rng.Split("hist"), pool) })
	part("draw", func() { c.drawStats(rng.Split("draw")) })
	part("draw-wide", func() { c.drawWide(rng.Split("draw-wide")) })
	part("waiter", func() { c.waiterGivesUp(rng.Split("waiter"), pool) })
	wg.Wait()
	// the end-to-end variant runs real (mock-)network round trips under real context deadlines: it
	// runs after the CPU-heavy parts so that a starved attempt does not pass for a refused one
	part("e2e", func() { c.e2e(rng.Split("e2e")) })
	wg.Wait()

	run.Require("scripted/outcome/inside/nil", 50)
	run.Require("scripted/available/verified", 50)
	run.Require("scripted/outcome/inside/ErrNotAvailable", 50)
	run.Require("scripted/outcome/inside/Canceled", 5)
	run.Require("scripted/outcome/outside/ErrOutsideSamplingWindow", 5)
	run.Require("scripted/outcome/empty/nil", 5)
	run.Require("scripted/draw/first", 100)
	run.Require("scripted/chain/retry/checked", 100)
	run.Require("scripted/chain/concurrent/checked", 30)
	run.Require("scripted/chain/graceful-restart/checked", 30)
	run.Require("scripted/restart/crash-restart", 10)
	run.Require("scripted/burst/same_block_getter_calls>=2", 10)
	run.Require("draw/roots", 1000)
	run.Require("scripted/dsfault/reads_failed", 10)
	run.Require("e2e/cases_completed", 4)
	run.Require("e2e/wrong_samples_reached_the_real_getter", 4)
	run.Require("e2e/available/verified", 2)
	run.Assume("a shwap.Getter returns positional results (result[i] belongs to indices[i], empty Sample for not retrieved): the scripted getter obeys that contract")
	run.Assume("light.ShareAvailability does not re-verify samples: it trusts the getter (probe counters under probe/…); whether the production getter stack honours that trust is decided by the e2e variant with the real shrex getter")
	run.Assume("crash-restart = fresh instance over the same datastore without Close: writes buffered by the auto-batching datastore are lost by design, so only the safety half is demanded there")
	run.Assume("'unpredictably' is tested only as: not constant across processes, not confined to a part of the square, no repetition inside a draw")
}
