package checks

// Shared harness of C04 (no height is ever lost) and C13 (progress within bounds): the real
// das.DASer driven by PRNG schedules against scripted collaborators.
//
// What is observed (black box): SamplingStats snapshots, WaitCatchUp, every checkpoint Put (the
// persisted JSON), and the sampler call log of the mock share.Availability.
//
// Facts about the code that the oracles rely on (read in das/coordinator.go, das/state.go):
//   - SamplingStats parks the coordinator loop (waitCh + WaitGroup) while unsafeStats runs, so
//     cursor / failed / inRetry / worker *list* are one atomic snapshot of the coordinator;
//     every worker's (curr, failed) pair is read under that worker's lock, workers keep running.
//     A worker's Curr is the last height it *finished* (initially From), so everything in
//     [Curr, To] is "being sampled" and everything in [From, Curr) is in S or in Failed.
//   - the mock logs a success into S *before* it returns nil, so S ⊇ what the DASer can know,
//     and S is read *after* SamplingStats returned (S only grows): a height missing from S at
//     return was missing at snapshot time too. Hence the live oracles cannot false-alarm on a
//     legitimately double-sampled height or on the conservative SampledChainHead.

import (
	"context"
	"encoding/json"
	"errors"
	"fmt"
	"sort"
	"sync"
	"time"

	"github.com/cometbft/cometbft/types"
	"github.com/ipfs/go-datastore"
	ds_sync "github.com/ipfs/go-datastore/sync"
	logging "github.com/ipfs/go-log/v2"

	libhead "github.com/celestiaorg/go-header"

	"github.com/celestiaorg/celestia-node/das"
	"github.com/celestiaorg/celestia-node/header"
	"github.com/celestiaorg/celestia-node/share"
	"github.com/celestiaorg/celestia-node/share/availability"
	"github.com/celestiaorg/celestia-node/zz_verif/vkit"
)

type c04Mode int

const (
	c04ModeC04 c04Mode = iota
	c04ModeC13
)

// scripted sampler outcomes
const (
	c04OK = iota
	c04Fail
	c04Outside
	c04Cancelish // error wrapping context.Canceled although the call's context is alive
)

var c04KindName = []string{"ok", "fail", "outside", "cancelish"}

type c04Outcome struct {
	kind  int
	block bool // block until released by the scheduler (or the context ends)
	// atDeadline (cancel-looking outcomes in schedules with a short per-sample timeout): the call
	// keeps running until the per-sample deadline fires and then fails with an error wrapping
	// context.Canceled (what a stream reset by a deadline looks like) — the DASer itself keeps running
	atDeadline bool
}

type c04Call struct {
	id       int
	h        uint64
	att      int
	via      string // "sub": header object handed out by the subscription (recent job); "store": fetched by height
	oc       c04Outcome
	begin    time.Time
	ltBegin  int64
	release  chan struct{}
	released bool
	state    string // inflight | ok | outside | fail | cancelish | ctx
}

// c04Cp is the persisted checkpoint, decoded from the JSON that reached the datastore.
type c04Cp struct {
	SampleFrom  uint64         `json:"sample_from"`
	NetworkHead uint64         `json:"network_head"`
	Failed      map[uint64]int `json:"failed"`
	Workers     []struct {
		From    uint64 `json:"from"`
		To      uint64 `json:"to"`
		JobType string `json:"job_type"`
	} `json:"workers"`
}

func (c *c04Cp) covers(h uint64) bool {
	if h >= c.SampleFrom {
		return true
	}
	if _, ok := c.Failed[h]; ok {
		return true
	}
	for _, w := range c.Workers {
		if w.From <= h && h <= w.To {
			return true
		}
	}
	return false
}

// c04Image is the content of the checkpoint key of a datastore: what a restart resumes from.
type c04Image struct {
	key   datastore.Key
	bytes []byte
	cp    c04Cp
	sAt   map[uint64]bool   // S when the Put began
	lost  map[uint64]string // heights in [lo, cp.NetworkHead] \ sAt not covered by cp -> class
	lo    uint64
	putNo int
	inst  int
}

type c04Snap struct {
	st     das.SamplingStats
	ltCall int64
	ltRet  int64
}

// c04Inst is one DASer process lifetime ("epoch").
type c04Inst struct {
	id      int
	L       int
	d       *das.DASer
	sub     *c04Sub
	dead    bool // crashed: nothing it does from now on reaches S or the disk
	stopped bool
	lo      uint64 // starting point of this lifetime: max(first start, header-store tail at Start)

	image        *c04Image // current datastore content
	puts         int
	dieAfterPut  bool
	startCp      *c04Cp
	startFrom    uint64
	resumedOver  bool // started from a checkpoint holding more workers than the new limit allows
	startIdle    bool // started from a checkpoint that leaves nothing to do
	live         int
	maxLive      int
	inflight     map[int]*c04Call
	lastCall     map[uint64]*c04Call
	subCalls     map[uint64]int  // calls via the subscription header per height
	announced    map[uint64]bool // heights pushed into this lifetime's subscription
	subCancelish map[uint64]bool // a newest-head call on the height ended on a cancel-looking error
	fails        map[uint64]int  // failing sampler calls per height in this lifetime
	lastFailRet  map[uint64]time.Time
	cancelish    map[uint64]bool // heights on which a cancel-looking error was served while running
	started      int64
	returned     int64
	maxPushed    uint64
	startNetHead uint64
	headAccepted bool
	prev         *c04Snap
}

// c04Sched is one schedule: its own DASer instances, mocks and monitor state under one mutex.
type c04Sched struct {
	eng *c04Engine
	p   c04Params
	rng *vkit.RNG

	mu         sync.Mutex
	lt         int64
	S          map[uint64]int64 // height -> logical time of the last logged success / skip
	attempts   map[uint64]int
	hdrCalls   map[uint64]int
	stubborn   map[uint64]int
	fair       bool
	tail       uint64
	head       uint64
	nextCall   int
	nextInst   int
	excused    map[uint64]bool // heights already reported as lost by a checkpoint this schedule restarted from
	trace      []string
	in         *c04Inst
	restarts   int
	unexpected int
}

type c04Params struct {
	Idx      int    `json:"schedule"`
	Range    uint64 `json:"sampling_range"`
	L        int    `json:"concurrency_limit"`
	MaxH     uint64 `json:"max_height"`
	Tail0    uint64 `json:"tail0"`
	Head0    uint64 `json:"head0"`
	PFail    int    `json:"p_fail_pct"`
	POutside int    `json:"p_outside_pct"`
	PBlock   int    `json:"p_block_pct"`
	PCancel  int    `json:"p_cancelish_pct"`
	PHdrFail int    `json:"p_header_store_transient_fail_pct"`
	// SampleTimeout: per-sample timeout handed to the DASer (0 = one hour, i.e. never fires)
	SampleTimeout time.Duration   `json:"sample_timeout_ns"`
	BgEvery       time.Duration   `json:"bg_store_interval_ns"`
	Backoff       []time.Duration `json:"backoff_ns"`
	Events        int             `json:"events"`
	OcSeed        uint64          `json:"-"`
	EndCrash      bool            `json:"end_with_crash"`
	VaryLimit     bool            `json:"vary_limit_on_restart"`
}

func (s *c04Sched) tr(format string, a ...any) {
	if len(s.trace) < 600 {
		s.trace = append(s.trace, fmt.Sprintf(format, a...))
	}
}

// detail builds the witness attached to a violation. Caller holds mu.
func (s *c04Sched) detail(extra map[string]any) map[string]any {
	d := map[string]any{
		"seed": vkit.Seed(), "tier": vkit.Tier(), "params": s.p,
		"store_tail": s.tail, "store_head": s.head,
	}
	tr := s.trace
	if len(tr) > 120 {
		tr = tr[len(tr)-120:]
	}
	d["trace_tail"] = append([]string(nil), tr...)
	if s.in != nil {
		d["instance"] = map[string]any{"id": s.in.id, "limit": s.in.L, "start_point": s.in.lo, "dead": s.in.dead, "stopped": s.in.stopped}
	}
	for k, v := range extra {
		d[k] = v
	}
	return d
}

func (s *c04Sched) outcomeLocked(h uint64, att int) c04Outcome {
	if s.fair {
		return c04Outcome{kind: c04OK}
	}
	r := vkit.NewRNG(s.p.OcSeed, fmt.Sprintf("oc/%d/%d", h, att))
	oc := c04Outcome{kind: c04OK}
	x := r.Intn(100)
	switch {
	case att < s.stubborn[h]:
		oc.kind = c04Fail
	case x < s.p.PFail:
		oc.kind = c04Fail
	case x < s.p.PFail+s.p.POutside:
		oc.kind = c04Outside
	case x < s.p.PFail+s.p.POutside+s.p.PCancel:
		oc.kind = c04Cancelish
	}
	oc.block = r.Intn(100) < s.p.PBlock
	if s.p.SampleTimeout > 0 && oc.kind == c04Cancelish && r.Intn(100) < 70 {
		oc.atDeadline, oc.block = true, false
	}
	return oc
}

// ---------------------------------------------------------------------------------------------
// mock share.Availability

type c04Sampler struct {
	s  *c04Sched
	in *c04Inst
}

var (
	c04ErrFail = errors.New("c04: scripted sampling failure")
)

func (a *c04Sampler) SharesAvailable(ctx context.Context, h *header.ExtendedHeader) error {
	s, in := a.s, a.in
	height := h.Height()
	via := h.RawHeader.ChainID
	s.mu.Lock()
	if in.dead {
		s.mu.Unlock()
		<-ctx.Done()
		return ctx.Err()
	}
	s.lt++
	att := s.attempts[height]
	s.attempts[height]++
	c := &c04Call{id: s.nextCall, h: height, att: att, via: via, oc: s.outcomeLocked(height, att),
		begin: time.Now(), ltBegin: s.lt, release: make(chan struct{}), state: "inflight"}
	s.nextCall++
	in.inflight[c.id] = c
	in.lastCall[height] = c
	if via == "sub" {
		in.subCalls[height]++
	}
	in.started++
	in.live++
	if in.live > in.maxLive {
		in.maxLive = in.live
	}
	s.eng.run.Count("call/begin/"+via, 1)
	if s.eng.mode == c04ModeC13 {
		s.judgeCallBeginLocked(in, c)
	}
	s.mu.Unlock()

	if c.oc.block {
		select {
		case <-c.release:
		case <-ctx.Done():
			if errors.Is(ctx.Err(), context.DeadlineExceeded) {
				// the per-sample timeout fired while the DASer keeps running: a failed sample
				s.eng.run.Count("call/sample-timeout-fired/blocked-call", 1)
				return a.finish(c, "fail", fmt.Errorf("c04: height %d attempt %d: %w", height, att, ctx.Err()))
			}
			return a.finish(c, "ctx", ctx.Err())
		}
	}
	if c.oc.atDeadline {
		<-ctx.Done()
		if !errors.Is(ctx.Err(), context.DeadlineExceeded) {
			return a.finish(c, "ctx", ctx.Err())
		}
		s.eng.run.Count("call/sample-timeout-fired/cancel-looking-error", 1)
	}
	switch c.oc.kind {
	case c04Fail:
		return a.finish(c, "fail", fmt.Errorf("%w (height %d attempt %d): %w", c04ErrFail, height, att, share.ErrNotAvailable))
	case c04Outside:
		return a.finish(c, "outside", fmt.Errorf("c04: height %d: %w", height, availability.ErrOutsideSamplingWindow))
	case c04Cancelish:
		return a.finish(c, "cancelish", fmt.Errorf("c04: upstream request aborted: %w", context.Canceled))
	}
	return a.finish(c, "ok", nil)
}

func (a *c04Sampler) finish(c *c04Call, state string, err error) error {
	s, in := a.s, a.in
	s.mu.Lock()
	defer s.mu.Unlock()
	if s.fair && state != "ctx" && state != "ok" { // faults have stopped: everything that returns from now on succeeds
		state, err = "ok", nil
	}
	s.lt++
	c.state = state
	delete(in.inflight, c.id)
	in.live--
	in.returned++
	if in.dead { // the process is gone: this return is not part of any history
		return err
	}
	s.eng.run.Count("call/return/"+state, 1)
	switch state {
	case "ok", "outside":
		// logged BEFORE returning: S is a superset of what the DASer can know
		s.S[c.h] = s.lt
	case "fail":
		in.fails[c.h]++
		in.lastFailRet[c.h] = time.Now()
	case "cancelish":
		in.cancelish[c.h] = true
		if c.via == "sub" {
			in.subCancelish[c.h] = true
		}
	}
	return err
}

// ---------------------------------------------------------------------------------------------
// mock header store (only Head / Tail / GetByHeight are used by the DASer) and subscription

func c04Header(h uint64, via string) *header.ExtendedHeader {
	return &header.ExtendedHeader{
		RawHeader: header.RawHeader{Height: int64(h), ChainID: via},
		Commit:    &types.Commit{},
		DAH:       &share.AxisRoots{RowRoots: [][]byte{}, ColumnRoots: [][]byte{}},
	}
}

type c04Store struct {
	s          *c04Sched // live bounds, or nil when frozen
	tail, head uint64
}

func (m *c04Store) bounds() (uint64, uint64) {
	if m.s == nil {
		return m.tail, m.head
	}
	m.s.mu.Lock()
	defer m.s.mu.Unlock()
	return m.s.tail, m.s.head
}

func (m *c04Store) unexpected(what string) error {
	if m.s != nil {
		m.s.mu.Lock()
		m.s.unexpected++
		m.s.mu.Unlock()
	}
	return fmt.Errorf("c04 header store mock: %s is not provided", what)
}

func (m *c04Store) Head(context.Context, ...libhead.HeadOption[*header.ExtendedHeader]) (*header.ExtendedHeader, error) {
	_, hd := m.bounds()
	return c04Header(hd, "store"), nil
}

func (m *c04Store) Tail(context.Context) (*header.ExtendedHeader, error) {
	t, _ := m.bounds()
	return c04Header(t, "store"), nil
}

func (m *c04Store) GetByHeight(ctx context.Context, h uint64) (*header.ExtendedHeader, error) {
	if err := ctx.Err(); err != nil {
		return nil, err
	}
	t, hd := m.bounds()
	if h < t || h > hd {
		return nil, fmt.Errorf("c04 store: height %d outside [%d,%d]: %w", h, t, hd, libhead.ErrNotFound)
	}
	// transient header-store failure: the first lookup of some heights fails, later ones succeed
	// (added after seeded change C13-b was missed: a worker must record the height as failed and go on)
	if m.s != nil && m.s.p.PHdrFail > 0 {
		m.s.mu.Lock()
		if m.s.hdrCalls == nil {
			m.s.hdrCalls = map[uint64]int{}
		}
		m.s.hdrCalls[h]++
		first := m.s.hdrCalls[h] == 1
		m.s.mu.Unlock()
		x := (h + m.s.p.OcSeed) * 0x9e3779b97f4a7c15
		x ^= x >> 31
		if first && int(x%100) < m.s.p.PHdrFail {
			return nil, fmt.Errorf("c04 store: transient failure looking up header %d", h)
		}
	}
	return c04Header(h, "store"), nil
}

func (m *c04Store) Get(context.Context, libhead.Hash) (*header.ExtendedHeader, error) {
	return nil, m.unexpected("Get")
}

func (m *c04Store) GetRangeByHeight(context.Context, *header.ExtendedHeader, uint64) ([]*header.ExtendedHeader, error) {
	return nil, m.unexpected("GetRangeByHeight")
}

func (m *c04Store) Height() uint64 { _, hd := m.bounds(); return hd }

func (m *c04Store) Has(context.Context, libhead.Hash) (bool, error) {
	return false, m.unexpected("Has")
}

func (m *c04Store) HasAt(_ context.Context, h uint64) bool {
	t, hd := m.bounds()
	return h >= t && h <= hd
}

func (m *c04Store) Append(context.Context, ...*header.ExtendedHeader) error {
	return m.unexpected("Append")
}

func (m *c04Store) GetRange(context.Context, uint64, uint64) ([]*header.ExtendedHeader, error) {
	return nil, m.unexpected("GetRange")
}

func (m *c04Store) DeleteRange(context.Context, uint64, uint64) error {
	return m.unexpected("DeleteRange")
}

func (m *c04Store) OnDelete(func(context.Context, uint64) error) {}

type c04Sub struct {
	ch chan *header.ExtendedHeader
}

func c04NewSub() *c04Sub { return &c04Sub{ch: make(chan *header.ExtendedHeader, 1024)} }

func (s *c04Sub) Subscribe() (libhead.Subscription[*header.ExtendedHeader], error) { return s, nil }

func (s *c04Sub) SetVerifier(func(context.Context, *header.ExtendedHeader) error) error { return nil }

func (s *c04Sub) NextHeader(ctx context.Context) (*header.ExtendedHeader, error) {
	select {
	case h := <-s.ch:
		return h, nil
	case <-ctx.Done():
		return nil, ctx.Err()
	}
}

func (s *c04Sub) Cancel() {}

func (s *c04Sub) push(h uint64) bool {
	select {
	case s.ch <- c04Header(h, "sub"):
		return true
	default:
		return false
	}
}

// ---------------------------------------------------------------------------------------------
// datastore wrapper: records every checkpoint Put (black box on the persisted JSON)

type c04DS struct {
	datastore.Datastore
	s  *c04Sched
	in *c04Inst
}

func (d *c04DS) Put(ctx context.Context, key datastore.Key, value []byte) error {
	s, in := d.s, d.in
	if s == nil { // probe datastore: not monitored
		return d.Datastore.Put(ctx, key, value)
	}
	s.mu.Lock()
	defer s.mu.Unlock()
	if in.dead {
		return nil // nothing reaches the disk of a crashed process
	}
	s.lt++
	in.puts++
	img := &c04Image{key: key, bytes: append([]byte(nil), value...), sAt: make(map[uint64]bool, len(s.S)),
		lo: in.lo, putNo: in.puts, inst: in.id, lost: map[uint64]string{}}
	for h := range s.S {
		img.sAt[h] = true
	}
	if err := json.Unmarshal(value, &img.cp); err != nil {
		s.eng.run.Violation("C04 persisted checkpoint is not valid JSON", s.detail(map[string]any{"value": string(value), "err": err.Error()}))
		return d.Datastore.Put(ctx, key, value)
	}
	in.image = img
	s.judgePutLocked(in, img)
	if in.dieAfterPut {
		in.dead = true
		in.dieAfterPut = false
		s.tr("crash right after put#%d", in.puts)
	}
	return d.Datastore.Put(ctx, key, value)
}

// ---------------------------------------------------------------------------------------------
// oracle: checkpoint coverage (C04-3), evaluated when the Put begins. Caller holds mu.

// classifyLost names the scenario class of a lost height for the violation signature: was the
// height handed to a newest-head ("recent") job in this lifetime (announced through the
// subscription and sampled through the announced header object, or not sampled at all yet)?
func (s *c04Sched) classifyLost(in *c04Inst, h uint64) string {
	c := in.lastCall[h]
	switch {
	case in.subCancelish[h]:
		return "height was handed to a newest-head job that ended on a cancel-looking sampler error"
	case in.subCalls[h] > 0 || (c == nil && in.announced[h]):
		return "height was handed to a newest-head job"
	case c == nil:
		return "other: no sampler call seen in this lifetime"
	default:
		return "other: last call via the header store, " + c.state
	}
}

func (s *c04Sched) judgePutLocked(in *c04Inst, img *c04Image) {
	run := s.eng.run
	run.Count("put/total", 1)
	recentInFlight := 0
	for _, c := range in.inflight {
		if c.via == "sub" {
			recentInFlight++
		}
	}
	if recentInFlight > 0 {
		run.Count("put/while_newest_head_in_flight", 1)
	}
	if len(in.inflight) > 0 {
		run.Count("put/while_calls_in_flight", 1)
	}
	if len(img.cp.Workers) > 0 {
		run.Count("put/with_workers", 1)
	}
	if len(img.cp.Failed) > 0 {
		run.Count("put/with_failed", 1)
	}
	s.tr("put#%d %s", in.puts, string(img.bytes))
	run.Eval(1)
	run.Distinct(fmt.Sprintf("put|R%d|L%d|w%d|f%d|gap%d|infl%d|rec%d", s.p.Range, in.L, c04b(len(img.cp.Workers)), c04b(len(img.cp.Failed)),
		c04b(int(img.cp.NetworkHead+1-min(img.cp.SampleFrom, img.cp.NetworkHead+1))), c04b(len(in.inflight)), c04b(recentInFlight)))
	for h := in.lo; h <= img.cp.NetworkHead; h++ {
		if _, ok := s.S[h]; ok || img.cp.covers(h) || s.excused[h] {
			continue
		}
		img.lost[h] = s.classifyLost(in, h)
	}
	if len(img.lost) == 0 || s.eng.mode != c04ModeC04 {
		return
	}
	byClass := map[string][]uint64{}
	for h, cl := range img.lost {
		byClass[cl] = append(byClass[cl], h)
	}
	for cl, hs := range byClass {
		sort.Slice(hs, func(i, j int) bool { return hs[i] < hs[j] })
		run.Violation("C04 checkpoint omits an unsampled height: "+cl, s.detail(map[string]any{
			"checkpoint": string(img.bytes), "put_no": img.putNo, "start_point": in.lo,
			"unsampled_and_uncovered": hs, "calls_in_flight": s.inflightDesc(in),
			"why": "height is in [start, checkpoint.network_head], was not successfully sampled when the Put began, and is neither >= sample_from, nor in failed, nor in a worker range: a restart from this checkpoint never samples it",
		}))
	}
}

func c04b(n int) int { // bucket
	switch {
	case n <= 3:
		return n
	case n <= 8:
		return 8
	default:
		return 99
	}
}

func (s *c04Sched) inflightDesc(in *c04Inst) []string {
	var out []string
	for _, c := range in.inflight {
		out = append(out, fmt.Sprintf("h=%d attempt=%d via=%s blocked=%v", c.h, c.att, c.via, c.oc.block && !c.released))
	}
	sort.Strings(out)
	return out
}

// ---------------------------------------------------------------------------------------------
// oracle: back-off lower bound (C13-i), evaluated when a sampler call begins. Caller holds mu.
//
// Only heights are judged whose every call after the first is necessarily a retry job: the height
// was not part of the checkpoint this lifetime resumed from (so it is reached by exactly one
// catch-up job) and no newest-head job ever sampled it in this lifetime. For them the calls are
// sequential, the n-th failure sets count=n, and the next call may start no earlier than
// interval[min(n,len)-1] after that failure was *handled*, which is after the failing call
// returned. Both clock reads are on the safe side (return stamped before the worker sees it,
// begin stamped after the worker started), so load can only lengthen the measured gap.

func (s *c04Sched) judgeCallBeginLocked(in *c04Inst, c *c04Call) {
	// (e) live sampler calls: the counter is raised on entry and lowered before return, so it never
	// exceeds the number of workers that are really inside the sampler
	s.eng.run.Max("max/live_sampler_calls", in.live)
	if in.live > 2*in.L {
		class := ""
		if in.resumedOver {
			class = " after a restart with a lower limit than the number of checkpointed workers"
		}
		s.eng.run.Violation("C13 concurrent sampler calls exceed twice the concurrency limit"+class, s.detail(map[string]any{
			"live_calls": in.live, "limit": in.L, "calls_in_flight": s.inflightDesc(in)}))
	}
	n := in.fails[c.h]
	if n == 0 || len(s.p.Backoff) == 0 {
		return
	}
	if c.via == "sub" || in.subCalls[c.h] > 0 || c.h < in.startFrom {
		return
	}
	if in.startCp != nil {
		if _, ok := in.startCp.Failed[c.h]; ok {
			return
		}
		for _, w := range in.startCp.Workers { // resumed range: may be sampled by a second non-retry job
			if w.From <= c.h && c.h <= w.To {
				return
			}
		}
	}
	want := s.p.Backoff[min(n, len(s.p.Backoff))-1]
	got := c.begin.Sub(in.lastFailRet[c.h])
	s.eng.run.Count("backoff/checked", 1)
	s.eng.run.Count(fmt.Sprintf("backoff/checked/after_%d_failures", min(n, 6)), 1)
	s.eng.run.Eval(1)
	if got < want {
		s.eng.run.Violation("C13 retry starts before its back-off interval elapsed", s.detail(map[string]any{
			"height": c.h, "failures_so_far": n, "interval_ns": want, "gap_ns": got,
		}))
	}
}

// ---------------------------------------------------------------------------------------------
// helpers

func c04Sorted(m map[uint64]bool) []uint64 {
	out := make([]uint64, 0, len(m))
	for h := range m {
		out = append(out, h)
	}
	sort.Slice(out, func(i, j int) bool { return out[i] < out[j] })
	return out
}

func c04StatsJSON(st das.SamplingStats) string {
	b, _ := json.Marshal(st)
	return string(b)
}

func c04Quiescent(st das.SamplingStats) bool {
	return len(st.Workers) == 0 && len(st.Failed) == 0 && st.CatchupHead >= st.NetworkHead
}

var c04LogOnce sync.Once

func c04Quiet() {
	c04LogOnce.Do(func() {
		_ = logging.SetLogLevel("das", "FATAL")
		_ = logging.SetLogLevel("*", "FATAL")
	})
}

func c04NewInnerDS() datastore.Datastore { return ds_sync.MutexWrap(datastore.NewMapDatastore()) }
