package checks

import (
	"bytes"
	"fmt"
	"sync"
	"time"

	"github.com/cometbft/cometbft/crypto/tmhash"
	cmtproto "github.com/cometbft/cometbft/proto/tendermint/types"
	cmtversion "github.com/cometbft/cometbft/proto/tendermint/version"
	"github.com/cometbft/cometbft/types"
	"github.com/cometbft/cometbft/version"

	"github.com/celestiaorg/celestia-app/v9/pkg/appconsts"
	"github.com/celestiaorg/celestia-app/v9/pkg/da"

	"github.com/celestiaorg/celestia-node/core"
	"github.com/celestiaorg/celestia-node/header"
	"github.com/celestiaorg/celestia-node/header/headertest"
	"github.com/celestiaorg/celestia-node/share"
	"github.com/celestiaorg/celestia-node/zz_verif/vkit"
)

// Blocks for C15: payloads (tx list + the reference square the real builder makes of it) are
// generated once and shared by all histories; the signed consensus block around a payload (header
// with height / time / data hash, commit, validator set) is made per history and height.

const c15chain = "c15-verif"

// c15payload is block content plus its reference model.
type c15payload struct {
	id    int
	blk   *vkit.Block // Txs, EDS (da.ConstructEDS of the txs), Sq (ODS, Roots)
	empty bool
	hash  share.DataHash
}

// roots returns a private copy of the reference axis roots (the cached hash is copied with it).
func (p *c15payload) roots() *share.AxisRoots {
	cp := *p.blk.Sq.Roots
	return &cp
}

func (p *c15payload) desc() string {
	if p.empty {
		return fmt.Sprintf("payload#%d empty", p.id)
	}
	return fmt.Sprintf("payload#%d %s", p.id, p.blk.Desc())
}

// c15pool generates n payloads (index 0 is the empty block) in parallel.
func c15pool(rng *vkit.RNG, n int) []*c15payload {
	out := make([]*c15payload, n)
	var wg sync.WaitGroup
	sem := make(chan struct{}, 16)
	budgets := []int{4, 8, 12, 30, 30, 60, 60, 120}
	if vkit.Thorough() {
		budgets = append(budgets, 200, 400)
	}
	for i := 0; i < n; i++ {
		wg.Add(1)
		sem <- struct{}{}
		go func(i int) {
			defer wg.Done()
			defer func() { <-sem }()
			r := rng.SplitN("payload", i)
			var blk *vkit.Block
			if i == 0 {
				blk = vkit.BuildBlock(1, nil, nil, r)
				blk.Profile = "empty"
			} else {
				blk = vkit.GenBlock(r, vkit.BlockOpts{Height: uint64(i), MaxShares: vkit.Pick(r, budgets)})
			}
			p := &c15payload{id: i, blk: blk, hash: blk.Sq.Roots.Hash()}
			p.empty = p.hash.IsEmptyEDS()
			if (i == 0) != p.empty {
				panic(fmt.Sprintf("c15pool: payload %d: empty=%v (generator bug)", i, p.empty))
			}
			out[i] = p
		}(i)
	}
	wg.Wait()
	return out
}

// c15vals is a validator set with its keys.
type c15vals struct {
	set   *types.ValidatorSet
	privs []types.PrivValidator
}

func c15newVals(n int) *c15vals {
	set, privs := headertest.RandValidatorSet(n, 10)
	return &c15vals{set: set, privs: privs}
}

// c15block is one signed consensus block of a history.
type c15block struct {
	height     int64
	pay        *c15payload
	time       time.Time
	inWindow   bool // decided by the harness from the timestamp it chose (far from the boundary)
	consistent bool // header.DataHash == hash(DAH(txs))
	hdr        *types.Header
	commit     *types.Commit
	last       *types.Commit // LastCommit of the full block (needed on the gRPC path)
	vals       *c15vals
	wire       [][]byte // proto-encoded block split into parts (gRPC path), lazily built
	wireOnce   sync.Once
}

func c15blockID(r *vkit.RNG, hash []byte) types.BlockID {
	if hash == nil {
		hash = r.Bytes(32)
	}
	return types.BlockID{Hash: hash, PartSetHeader: types.PartSetHeader{Total: uint32(r.Range(1, 9)), Hash: r.Bytes(32)}}
}

// c15sign makes the signed block of a payload at (height, ts).
func c15sign(r *vkit.RNG, v *c15vals, height int64, ts time.Time, inWindow bool, pay *c15payload, consistent bool) *c15block {
	ts = ts.UTC().Round(0).Truncate(time.Millisecond)
	lastID := c15blockID(r, nil)
	last, err := headertest.MakeCommit(lastID, height-1, 0,
		types.NewVoteSet(c15chain, height-1, 0, cmtproto.PrecommitType, v.set), v.privs, ts.Add(-6*time.Second))
	if err != nil {
		panic(fmt.Sprintf("c15sign: last commit: %v", err))
	}
	dataHash := []byte(pay.hash)
	if !consistent {
		dataHash = r.Bytes(32)
	}
	h := &types.Header{
		Version:            cmtversion.Consensus{Block: version.BlockProtocol, App: appconsts.Version},
		ChainID:            c15chain,
		Height:             height,
		Time:               ts,
		LastBlockID:        lastID,
		LastCommitHash:     last.Hash(),
		DataHash:           dataHash,
		ValidatorsHash:     v.set.Hash(),
		NextValidatorsHash: v.set.Hash(),
		ConsensusHash:      r.Bytes(32),
		AppHash:            r.Bytes(32),
		LastResultsHash:    r.Bytes(32),
		EvidenceHash:       tmhash.Sum(nil),
		ProposerAddress:    v.set.Validators[r.Intn(len(v.set.Validators))].Address,
	}
	commit, err := headertest.MakeCommit(c15blockID(r, h.Hash()), height, 0,
		types.NewVoteSet(c15chain, height, 0, cmtproto.PrecommitType, v.set), v.privs, ts)
	if err != nil {
		panic(fmt.Sprintf("c15sign: commit: %v", err))
	}
	return &c15block{height: height, pay: pay, time: ts, inWindow: inWindow, consistent: consistent, hdr: h, commit: commit, last: last, vals: v}
}

// serve returns a fresh SignedBlock value (what a fetch from a consensus endpoint yields: nothing
// shared between two fetches). badApp serves the block with app version 0, which cannot be extended.
func (b *c15block) serve(badApp bool) *core.SignedBlock {
	h := *b.hdr
	if badApp {
		h.Version.App = 0
	}
	txs := make(types.Txs, len(b.pay.blk.Txs))
	for i, tx := range b.pay.blk.Txs {
		txs[i] = types.Tx(tx)
	}
	return &core.SignedBlock{Header: &h, Commit: b.commit.Clone(), Data: &types.Data{Txs: txs}, ValidatorSet: b.vals.set.Copy()}
}

// extended is the extended header a syncing node would hold for the block (availability path).
func (b *c15block) extended() *header.ExtendedHeader {
	sb := b.serve(false)
	return &header.ExtendedHeader{RawHeader: *sb.Header, Commit: sb.Commit, ValidatorSet: sb.ValidatorSet, DAH: b.pay.roots()}
}

// parts returns the block as a consensus node streams it over gRPC: the proto encoding of the
// full block (header, data with its hash, evidence, last commit) cut into 64 KiB parts.
func (b *c15block) parts() [][]byte {
	b.wireOnce.Do(func() {
		pb := &cmtproto.Block{
			Header:     *b.hdr.ToProto(),
			Data:       cmtproto.Data{Txs: b.pay.blk.Txs, Hash: b.hdr.DataHash, SquareSize: uint64(b.pay.blk.W)},
			LastCommit: b.last.ToProto(),
		}
		bz, err := pb.Marshal()
		if err != nil {
			panic(err)
		}
		// self-check: the encoding must decode into a block that passes cometbft's own validation
		var back cmtproto.Block
		if err := back.Unmarshal(bz); err != nil {
			panic(err)
		}
		if _, err := types.BlockFromProto(&back); err != nil {
			panic(fmt.Sprintf("c15block.parts: generated block does not pass BlockFromProto: %v", err))
		}
		ps := int(types.BlockPartSizeBytes)
		for off := 0; off < len(bz) || off == 0; off += ps {
			b.wire = append(b.wire, bz[off:min(off+ps, len(bz))])
		}
	})
	return b.wire
}

// c15selfCheck validates the fixture once: a consistent signed block yields an extended header that
// passes the node's own Validate, and the reference square is what da.ConstructEDS makes of the txs.
func c15selfCheck(b *c15block) error {
	sb := b.serve(false)
	e, err := da.ConstructEDS(sb.Data.Txs.ToSliceOfBytes(), sb.Header.Version.App, -1)
	if err != nil {
		return fmt.Errorf("ConstructEDS: %w", err)
	}
	roots, err := share.NewAxisRoots(e)
	if err != nil {
		return err
	}
	if !roots.Equals(b.pay.blk.Sq.Roots) {
		return fmt.Errorf("reference roots differ from ConstructEDS(txs)")
	}
	eh, err := header.MakeExtendedHeader(sb.Header, sb.Commit, sb.ValidatorSet, e)
	if err != nil {
		return err
	}
	if b.consistent {
		if err := eh.Validate(); err != nil {
			return fmt.Errorf("extended header of a consistent block does not validate: %w", err)
		}
		if !bytes.Equal(eh.DAH.Hash(), b.hdr.DataHash) {
			return fmt.Errorf("consistent block: DAH hash != data hash")
		}
	}
	_ = b.parts()
	return nil
}
