package checks

import (
	"fmt"
	"reflect"
	"time"

	cmted "github.com/cometbft/cometbft/crypto/ed25519"
	core "github.com/cometbft/cometbft/types"

	"github.com/celestiaorg/celestia-app/v9/pkg/da"

	"github.com/celestiaorg/celestia-node/zz_verif/vkit"
)

// Mutation operators. Every operator works on a fresh deep copy of an honest header and never
// re-signs: whatever it changes, the commit still carries the signatures of the original block.

type c16mut struct {
	class, field, op string
	apply            func(h *c16hdr)
}

func c16flip(r *vkit.RNG, b []byte) []byte {
	out := c16cpb(b)
	if len(out) == 0 {
		return []byte{byte(1 + r.Intn(255))}
	}
	out[r.Intn(len(out))] ^= 1 << uint(r.Intn(8))
	return out
}

// c16rawMuts: every RawHeader leaf found by reflection × the operators of its kind.
func c16rawMuts(r *vkit.RNG, leaves []c16leaf, nb *c16hdr, unsupported func(string)) []c16mut {
	var out []c16mut
	for _, l := range leaves {
		l := l
		add := func(op string, set func(v reflect.Value)) {
			out = append(out, c16mut{class: "raw", field: "raw." + l.name, op: op, apply: func(h *c16hdr) {
				set(reflect.ValueOf(&h.RawHeader).Elem().FieldByIndex(l.index))
			}})
		}
		var nbv reflect.Value
		if nb != nil {
			nbv = reflect.ValueOf(&nb.RawHeader).Elem().FieldByIndex(l.index)
		}
		switch {
		case l.typ == c16timeType:
			for _, d := range []time.Duration{time.Nanosecond, -time.Nanosecond, time.Second, -time.Hour, 24 * time.Hour} {
				d := d
				add("add"+d.String(), func(v reflect.Value) { v.Set(reflect.ValueOf(v.Interface().(time.Time).Add(d))) })
			}
			add("zero", func(v reflect.Value) { v.Set(reflect.ValueOf(time.Time{})) })
			add("truncate-second", func(v reflect.Value) { v.Set(reflect.ValueOf(v.Interface().(time.Time).Truncate(time.Second))) })
			if nb != nil {
				add("neighbour", func(v reflect.Value) { v.Set(nbv) })
			}
		case c16isBytes(l.typ):
			bit, pos := uint(r.Intn(8)), r.Intn(1<<16)
			add("bitflip", func(v reflect.Value) {
				b := c16cpb(v.Bytes())
				if len(b) == 0 {
					b = []byte{1}
				} else {
					b[pos%len(b)] ^= 1 << bit
				}
				v.SetBytes(b)
			})
			add("bitflip-last", func(v reflect.Value) {
				b := c16cpb(v.Bytes())
				if len(b) == 0 {
					b = []byte{0x80}
				} else {
					b[len(b)-1] ^= 1
				}
				v.SetBytes(b)
			})
			add("truncate-1", func(v reflect.Value) {
				if b := v.Bytes(); len(b) > 0 {
					v.SetBytes(c16cpb(b[:len(b)-1]))
				}
			})
			add("extend-1", func(v reflect.Value) { v.SetBytes(append(c16cpb(v.Bytes()), 0)) })
			add("empty", func(v reflect.Value) { v.SetBytes(nil) })
			rnd := r.Bytes(32)
			add("random", func(v reflect.Value) {
				n := len(v.Bytes())
				if n == 0 || n > 32 {
					n = 32
				}
				v.SetBytes(c16cpb(rnd[:n]))
			})
			add("zeroed", func(v reflect.Value) { v.SetBytes(make([]byte, len(v.Bytes()))) })
			if nb != nil {
				add("neighbour", func(v reflect.Value) { v.SetBytes(c16cpb(nbv.Bytes())) })
			}
		case l.typ.Kind() == reflect.Uint64 || l.typ.Kind() == reflect.Uint32 || l.typ.Kind() == reflect.Uint:
			add("+1", func(v reflect.Value) { v.SetUint(v.Uint() + 1) })
			add("-1", func(v reflect.Value) { v.SetUint(v.Uint() - 1) })
			add("=0", func(v reflect.Value) { v.SetUint(0) })
			add("x2", func(v reflect.Value) { v.SetUint(v.Uint() * 2) })
			rv := uint64(r.Intn(12))
			add("small-random", func(v reflect.Value) { v.SetUint(rv) })
			if nb != nil {
				add("neighbour", func(v reflect.Value) { v.SetUint(nbv.Uint()) })
			}
		case l.typ.Kind() == reflect.Int64 || l.typ.Kind() == reflect.Int32 || l.typ.Kind() == reflect.Int:
			add("+1", func(v reflect.Value) { v.SetInt(v.Int() + 1) })
			add("-1", func(v reflect.Value) { v.SetInt(v.Int() - 1) })
			add("=0", func(v reflect.Value) { v.SetInt(0) })
			add("negate", func(v reflect.Value) { v.SetInt(-v.Int()) })
			add("+1000", func(v reflect.Value) { v.SetInt(v.Int() + 1000) })
			rv := int64(r.Range(1, 1<<30))
			add("random", func(v reflect.Value) { v.SetInt(rv) })
			if nb != nil {
				add("neighbour", func(v reflect.Value) { v.SetInt(nbv.Int()) })
			}
		case l.typ.Kind() == reflect.String:
			add("append", func(v reflect.Value) { v.SetString(v.String() + "x") })
			add("first-char", func(v reflect.Value) {
				s := []byte(v.String())
				if len(s) == 0 {
					s = []byte("y")
				} else {
					s[0] ^= 0x01
				}
				v.SetString(string(s))
			})
			add("truncate-1", func(v reflect.Value) {
				if s := v.String(); len(s) > 0 {
					v.SetString(s[:len(s)-1])
				}
			})
			add("empty", func(v reflect.Value) { v.SetString("") })
			add("other", func(v reflect.Value) { v.SetString("mocha-4") })
		case l.typ.Kind() == reflect.Bool:
			add("toggle", func(v reflect.Value) { v.SetBool(!v.Bool()) })
		default:
			unsupported(l.name + ":" + l.typ.String())
		}
	}
	return out
}

func c16setDAH(h *c16hdr, rows, cols [][]byte) {
	h.DAH = &da.DataAvailabilityHeader{RowRoots: rows, ColumnRoots: cols}
}

func c16dahMuts(r *vkit.RNG, h0 *c16hdr, other *da.DataAvailabilityHeader) []c16mut {
	var out []c16mut
	add := func(field, op string, f func(rows, cols [][]byte) ([][]byte, [][]byte)) {
		ap := func(h *c16hdr) {
			if h.DAH == nil {
				return
			}
			rows, cols := f(c16cpbs(h.DAH.RowRoots), c16cpbs(h.DAH.ColumnRoots))
			c16setDAH(h, rows, cols)
		}
		out = append(out, c16mut{class: "dah", field: field, op: op, apply: ap})
		// the same with DataHash re-pointed at the new DAH (the commit still signs the old DataHash)
		out = append(out, c16mut{class: "dah", field: field + "+datahash", op: op, apply: func(h *c16hdr) {
			ap(h)
			if h.DAH != nil {
				h.DataHash = c16dahHash(h.DAH.RowRoots, h.DAH.ColumnRoots)
			}
		}})
	}
	n := len(h0.DAH.RowRoots)
	idxs := []int{0, n - 1, r.Intn(n)}
	for _, i := range idxs {
		i := i
		a, b := r.Intn(1<<16), uint(r.Intn(8))
		add("dah.row", fmt.Sprintf("bitflip[%d]", i), func(rows, cols [][]byte) ([][]byte, [][]byte) {
			if i < len(rows) && len(rows[i]) > 0 {
				rows[i][a%len(rows[i])] ^= 1 << b
			}
			return rows, cols
		})
		add("dah.col", fmt.Sprintf("bitflip[%d]", i), func(rows, cols [][]byte) ([][]byte, [][]byte) {
			if i < len(cols) && len(cols[i]) > 0 {
				cols[i][a%len(cols[i])] ^= 1 << b
			}
			return rows, cols
		})
		add("dah.swap", fmt.Sprintf("row[%d]<->col[%d]", i, i), func(rows, cols [][]byte) ([][]byte, [][]byte) {
			if i < len(rows) && i < len(cols) {
				rows[i], cols[i] = cols[i], rows[i]
			}
			return rows, cols
		})
		j := (i + 1) % n
		add("dah.swap", fmt.Sprintf("rows[%d,%d]", i, j), func(rows, cols [][]byte) ([][]byte, [][]byte) {
			if i < len(rows) && j < len(rows) {
				rows[i], rows[j] = rows[j], rows[i]
			}
			return rows, cols
		})
		add("dah.swap", fmt.Sprintf("cols[%d,%d]", i, j), func(rows, cols [][]byte) ([][]byte, [][]byte) {
			if i < len(cols) && j < len(cols) {
				cols[i], cols[j] = cols[j], cols[i]
			}
			return rows, cols
		})
		add("dah.row", fmt.Sprintf("copy-of-neighbour-row[%d]", i), func(rows, cols [][]byte) ([][]byte, [][]byte) {
			if i < len(rows) && j < len(rows) {
				rows[i] = c16cpb(rows[j])
			}
			return rows, cols
		})
		add("dah.row", fmt.Sprintf("truncate-root[%d]", i), func(rows, cols [][]byte) ([][]byte, [][]byte) {
			if i < len(rows) && len(rows[i]) > 0 {
				rows[i] = rows[i][:len(rows[i])-1]
			}
			return rows, cols
		})
		add("dah.col", fmt.Sprintf("extend-root[%d]", i), func(rows, cols [][]byte) ([][]byte, [][]byte) {
			if i < len(cols) {
				cols[i] = append(cols[i], 0)
			}
			return rows, cols
		})
	}
	add("dah.swap", "transpose", func(rows, cols [][]byte) ([][]byte, [][]byte) { return cols, rows })
	add("dah.swap", "reverse-rows", func(rows, cols [][]byte) ([][]byte, [][]byte) {
		for a, b := 0, len(rows)-1; a < b; a, b = a+1, b-1 {
			rows[a], rows[b] = rows[b], rows[a]
		}
		return rows, cols
	})
	last := func(x [][]byte) []byte {
		if len(x) == 0 {
			return make([]byte, 90)
		}
		return c16cpb(x[len(x)-1])
	}
	add("dah.shape", "add-row", func(rows, cols [][]byte) ([][]byte, [][]byte) { return append(rows, last(rows)), cols })
	add("dah.shape", "add-col", func(rows, cols [][]byte) ([][]byte, [][]byte) { return rows, append(cols, last(cols)) })
	add("dah.shape", "add-row+col", func(rows, cols [][]byte) ([][]byte, [][]byte) {
		return append(rows, last(rows)), append(cols, last(cols))
	})
	add("dah.shape", "double", func(rows, cols [][]byte) ([][]byte, [][]byte) {
		return append(rows, c16cpbs(rows)...), append(cols, c16cpbs(cols)...)
	})
	cut := func(x [][]byte) [][]byte {
		if len(x) == 0 {
			return x
		}
		return x[:len(x)-1]
	}
	add("dah.shape", "remove-row", func(rows, cols [][]byte) ([][]byte, [][]byte) { return cut(rows), cols })
	add("dah.shape", "remove-col", func(rows, cols [][]byte) ([][]byte, [][]byte) { return rows, cut(cols) })
	add("dah.shape", "remove-row+col", func(rows, cols [][]byte) ([][]byte, [][]byte) { return cut(rows), cut(cols) })
	add("dah.shape", "halve", func(rows, cols [][]byte) ([][]byte, [][]byte) { return rows[:len(rows)/2], cols[:len(cols)/2] })
	add("dah.shape", "move-last-col-to-rows", func(rows, cols [][]byte) ([][]byte, [][]byte) {
		if len(cols) == 0 {
			return rows, cols
		}
		return append(rows, cols[len(cols)-1]), cols[:len(cols)-1]
	})
	add("dah.shape", "no-cols", func(rows, cols [][]byte) ([][]byte, [][]byte) { return rows, nil })
	add("dah.shape", "no-rows", func(rows, cols [][]byte) ([][]byte, [][]byte) { return nil, cols })
	add("dah.shape", "empty", func(rows, cols [][]byte) ([][]byte, [][]byte) { return nil, nil })
	add("dah.shape", "nil-root-entry", func(rows, cols [][]byte) ([][]byte, [][]byte) {
		if len(rows) > 0 {
			rows[0] = nil
		}
		return rows, cols
	})
	if other != nil {
		o := c16cloneDAH(other)
		add("dah.other", "other-square", func(rows, cols [][]byte) ([][]byte, [][]byte) {
			return c16cpbs(o.RowRoots), c16cpbs(o.ColumnRoots)
		})
		add("dah.other", "other-square-rows-only", func(rows, cols [][]byte) ([][]byte, [][]byte) {
			return c16cpbs(o.RowRoots), cols
		})
	}
	out = append(out, c16mut{class: "dah", field: "dah.nil", op: "nil", apply: func(h *c16hdr) { h.DAH = nil }})
	return out
}

// c16sigIdx picks a few signature positions: first, last, and random ones.
func c16sigIdx(r *vkit.RNG, n, k int) []int {
	if n == 0 {
		return nil
	}
	seen := map[int]bool{}
	var out []int
	for _, i := range append([]int{0, n - 1}, r.Perm(n)...) {
		if !seen[i] && len(out) < k {
			seen[i] = true
			out = append(out, i)
		}
	}
	return out
}

func c16makeAbsent(s *core.CommitSig) { *s = core.NewCommitSigAbsent() }

// c16keepOnly turns every commit vote outside keep into an absent vote (alt: into a nil-flag vote).
func c16keepOnly(c *core.Commit, keep []int, nilFlag bool) {
	k := map[int]bool{}
	for _, i := range keep {
		k[i] = true
	}
	for i := range c.Signatures {
		if k[i] || c.Signatures[i].BlockIDFlag != core.BlockIDFlagCommit {
			continue
		}
		if nilFlag {
			c.Signatures[i].BlockIDFlag = core.BlockIDFlagNil
		} else {
			c16makeAbsent(&c.Signatures[i])
		}
	}
}

func c16commitMuts(r *vkit.RNG, h0, nb *c16hdr, nsig int) []c16mut {
	var out []c16mut
	add := func(field, op string, f func(c *core.Commit, h *c16hdr)) {
		out = append(out, c16mut{class: "commit", field: field, op: op, apply: func(h *c16hdr) {
			if h.Commit != nil {
				f(h.Commit, h)
			}
		}})
	}
	add("commit.height", "+1", func(c *core.Commit, _ *c16hdr) { c.Height++ })
	add("commit.height", "-1", func(c *core.Commit, _ *c16hdr) { c.Height-- })
	add("commit.height", "=0", func(c *core.Commit, _ *c16hdr) { c.Height = 0 })
	add("commit.height", "negative", func(c *core.Commit, _ *c16hdr) { c.Height = -c.Height })
	add("commit.height+raw.Height", "both+1", func(c *core.Commit, h *c16hdr) { c.Height++; h.RawHeader.Height++ })
	add("commit.round", "+1", func(c *core.Commit, _ *c16hdr) { c.Round++ })
	add("commit.round", "negative", func(c *core.Commit, _ *c16hdr) { c.Round = -1 })
	add("commit.blockid.hash", "bitflip", func(c *core.Commit, _ *c16hdr) { c.BlockID.Hash = c16flip(r.Split("bh"), c.BlockID.Hash) })
	add("commit.blockid.hash", "empty", func(c *core.Commit, _ *c16hdr) { c.BlockID.Hash = nil })
	rnd := r.Bytes(32)
	add("commit.blockid.hash", "random", func(c *core.Commit, _ *c16hdr) { c.BlockID.Hash = c16cpb(rnd) })
	add("commit.blockid.hash", "truncate", func(c *core.Commit, _ *c16hdr) {
		if len(c.BlockID.Hash) > 0 {
			c.BlockID.Hash = c.BlockID.Hash[:len(c.BlockID.Hash)-1]
		}
	})
	add("commit.blockid.psh", "total+1", func(c *core.Commit, _ *c16hdr) { c.BlockID.PartSetHeader.Total++ })
	add("commit.blockid.psh", "hash-bitflip", func(c *core.Commit, _ *c16hdr) {
		c.BlockID.PartSetHeader.Hash = c16flip(r.Split("psh"), c.BlockID.PartSetHeader.Hash)
	})
	add("commit.blockid.psh", "hash-tail-bitflip", func(c *core.Commit, _ *c16hdr) {
		if n := len(c.BlockID.PartSetHeader.Hash); n > 0 {
			b := c16cpb(c.BlockID.PartSetHeader.Hash)
			b[n-1] ^= 1
			c.BlockID.PartSetHeader.Hash = b
		}
	})
	add("commit.blockid.psh", "emptied", func(c *core.Commit, _ *c16hdr) { c.BlockID.PartSetHeader = core.PartSetHeader{} })
	if nb != nil && nb.Commit != nil {
		nc := nb.Commit
		add("commit.blockid.hash", "neighbour", func(c *core.Commit, _ *c16hdr) { c.BlockID.Hash = c16cpb(nc.BlockID.Hash) })
		add("commit.blockid", "neighbour", func(c *core.Commit, _ *c16hdr) { c.BlockID = c16cloneBlockID(nc.BlockID) })
		add("commit.height", "neighbour", func(c *core.Commit, _ *c16hdr) { c.Height = nc.Height })
		add("commit.sigs", "neighbour-signatures", func(c *core.Commit, _ *c16hdr) { c.Signatures = c16cloneCommit(nc).Signatures })
	}
	// the block id re-pointed at whatever the (possibly mutated) raw header hashes to
	add("commit.blockid.hash", "=hash(raw)", func(c *core.Commit, h *c16hdr) { c.BlockID.Hash = c16headerHash(&h.RawHeader) })

	for _, i := range c16sigIdx(r, nsig, 4) {
		i := i
		j := (i + 1) % nsig
		rr := r.SplitN("sig", i)
		sig := func(field, op string, f func(s *core.CommitSig, c *core.Commit)) {
			add(field, fmt.Sprintf("%s[%d]", op, i), func(c *core.Commit, _ *c16hdr) {
				if i < len(c.Signatures) {
					f(&c.Signatures[i], c)
				}
			})
		}
		sig("commit.sig.signature", "bitflip", func(s *core.CommitSig, _ *core.Commit) { s.Signature = c16flip(rr, s.Signature) })
		sig("commit.sig.signature", "truncate", func(s *core.CommitSig, _ *core.Commit) {
			if len(s.Signature) > 0 {
				s.Signature = s.Signature[:len(s.Signature)-1]
			}
		})
		sig("commit.sig.signature", "extend", func(s *core.CommitSig, _ *core.Commit) { s.Signature = append(c16cpb(s.Signature), 0) })
		sig("commit.sig.signature", "empty", func(s *core.CommitSig, _ *core.Commit) { s.Signature = nil })
		rs := rr.Bytes(64)
		sig("commit.sig.signature", "random", func(s *core.CommitSig, _ *core.Commit) { s.Signature = c16cpb(rs) })
		sig("commit.sig.signature", "zero", func(s *core.CommitSig, _ *core.Commit) { s.Signature = make([]byte, 64) })
		sig("commit.sig.signature", "other-validators", func(s *core.CommitSig, c *core.Commit) {
			if j < len(c.Signatures) && j != i {
				s.Signature = c16cpb(c.Signatures[j].Signature)
			}
		})
		sig("commit.sig.flag", "->nil", func(s *core.CommitSig, _ *core.Commit) { s.BlockIDFlag = core.BlockIDFlagNil })
		sig("commit.sig.flag", "->commit", func(s *core.CommitSig, _ *core.Commit) {
			if s.BlockIDFlag == core.BlockIDFlagNil {
				s.BlockIDFlag = core.BlockIDFlagCommit
			}
		})
		sig("commit.sig.flag", "->absent", func(s *core.CommitSig, _ *core.Commit) { c16makeAbsent(s) })
		sig("commit.sig.flag", "->absent-keeping-fields", func(s *core.CommitSig, _ *core.Commit) { s.BlockIDFlag = core.BlockIDFlagAbsent })
		sig("commit.sig.flag", "=0", func(s *core.CommitSig, _ *core.Commit) { s.BlockIDFlag = 0 })
		sig("commit.sig.flag", "=4", func(s *core.CommitSig, _ *core.Commit) { s.BlockIDFlag = 4 })
		sig("commit.sig.timestamp", "+1ns", func(s *core.CommitSig, _ *core.Commit) { s.Timestamp = s.Timestamp.Add(1) })
		sig("commit.sig.timestamp", "+1s", func(s *core.CommitSig, _ *core.Commit) { s.Timestamp = s.Timestamp.Add(time.Second) })
		sig("commit.sig.timestamp", "zero", func(s *core.CommitSig, _ *core.Commit) { s.Timestamp = time.Time{} })
		sig("commit.sig.timestamp", "other-validators", func(s *core.CommitSig, c *core.Commit) {
			if j < len(c.Signatures) {
				s.Timestamp = c.Signatures[j].Timestamp
			}
		})
		sig("commit.sig.address", "bitflip", func(s *core.CommitSig, _ *core.Commit) { s.ValidatorAddress = c16flip(rr, s.ValidatorAddress) })
		sig("commit.sig.address", "other-validators", func(s *core.CommitSig, c *core.Commit) {
			if j < len(c.Signatures) && j != i {
				s.ValidatorAddress = c16cpb(c.Signatures[j].ValidatorAddress)
			}
		})
		sig("commit.sig.address", "empty", func(s *core.CommitSig, _ *core.Commit) { s.ValidatorAddress = nil })
		sig("commit.sigs.order", "swap-with-next", func(_ *core.CommitSig, c *core.Commit) {
			if j < len(c.Signatures) {
				c.Signatures[i], c.Signatures[j] = c.Signatures[j], c.Signatures[i]
			}
		})
	}
	add("commit.sigs.shape", "drop-last", func(c *core.Commit, _ *c16hdr) {
		if n := len(c.Signatures); n > 0 {
			c.Signatures = c.Signatures[:n-1]
		}
	})
	add("commit.sigs.shape", "drop-first", func(c *core.Commit, _ *c16hdr) {
		if len(c.Signatures) > 0 {
			c.Signatures = c.Signatures[1:]
		}
	})
	add("commit.sigs.shape", "append-copy-of-first", func(c *core.Commit, _ *c16hdr) {
		if len(c.Signatures) > 0 {
			c.Signatures = append(c.Signatures, c16cloneCommit(c).Signatures[0])
		}
	})
	add("commit.sigs.shape", "append-absent", func(c *core.Commit, _ *c16hdr) { c.Signatures = append(c.Signatures, core.NewCommitSigAbsent()) })
	add("commit.sigs.shape", "none", func(c *core.Commit, _ *c16hdr) { c.Signatures = nil })
	add("commit.sigs.order", "reverse", func(c *core.Commit, _ *c16hdr) {
		for a, b := 0, len(c.Signatures)-1; a < b; a, b = a+1, b-1 {
			c.Signatures[a], c.Signatures[b] = c.Signatures[b], c.Signatures[a]
		}
	})
	add("commit.sigs.order", "rotate", func(c *core.Commit, _ *c16hdr) {
		if len(c.Signatures) > 1 {
			c.Signatures = append(c.Signatures[1:], c.Signatures[0])
		}
	})
	add("commit.sig.flag", "all->nil", func(c *core.Commit, _ *c16hdr) {
		for i := range c.Signatures {
			if c.Signatures[i].BlockIDFlag == core.BlockIDFlagCommit {
				c.Signatures[i].BlockIDFlag = core.BlockIDFlagNil
			}
		}
	})
	add("commit.sig.flag", "all->absent", func(c *core.Commit, _ *c16hdr) {
		for i := range c.Signatures {
			c16makeAbsent(&c.Signatures[i])
		}
	})
	add("commit.sig.signature", "all-bitflip", func(c *core.Commit, _ *c16hdr) {
		for i := range c.Signatures {
			if len(c.Signatures[i].Signature) > 0 {
				c.Signatures[i].Signature = c16flip(r.SplitN("all", i), c.Signatures[i].Signature)
			}
		}
	})

	// thresholds: keep only a subset of the commit votes, computed on the honest header
	var w []int64
	var pos []int
	var total int64
	for i, v := range h0.ValidatorSet.Validators {
		total += v.VotingPower
		if i < len(h0.Commit.Signatures) && h0.Commit.Signatures[i].BlockIDFlag == core.BlockIDFlagCommit {
			w = append(w, v.VotingPower)
			pos = append(pos, i)
		}
	}
	below, above, bs, _ := c16subsets(w, total, 2, 3)
	mapIdx := func(ix []int) []int {
		o := make([]int, len(ix))
		for k, i := range ix {
			o[k] = pos[i]
		}
		return o
	}
	if below != nil {
		kb := mapIdx(below)
		tag := "at-or-below-2/3"
		if 3*bs == 2*total {
			tag = "exactly-2/3"
		}
		add("commit.threshold", tag+"/rest-absent", func(c *core.Commit, _ *c16hdr) { c16keepOnly(c, kb, false) })
		add("commit.threshold", tag+"/rest-nil-flag", func(c *core.Commit, _ *c16hdr) { c16keepOnly(c, kb, true) })
		add("commit.threshold", tag+"/rest-corrupted", func(c *core.Commit, _ *c16hdr) {
			k := map[int]bool{}
			for _, i := range kb {
				k[i] = true
			}
			for i := range c.Signatures {
				if !k[i] && len(c.Signatures[i].Signature) > 0 {
					c.Signatures[i].Signature = c16flip(r.SplitN("thr", i), c.Signatures[i].Signature)
				}
			}
		})
	}
	if above != nil {
		ka := mapIdx(above)
		add("commit.threshold", "min-above-2/3/rest-absent", func(c *core.Commit, _ *c16hdr) { c16keepOnly(c, ka, false) })
		add("commit.threshold", "min-above-2/3/rest-nil-flag", func(c *core.Commit, _ *c16hdr) { c16keepOnly(c, ka, true) })
	}
	out = append(out, c16mut{class: "commit", field: "commit.nil", op: "nil", apply: func(h *c16hdr) { h.Commit = nil }})
	return out
}

func c16valsetMuts(r *vkit.RNG, h0 *c16hdr) []c16mut {
	var out []c16mut
	add := func(field, op string, f func(vs *core.ValidatorSet)) {
		ap := func(h *c16hdr) {
			if h.ValidatorSet != nil {
				f(h.ValidatorSet)
			}
		}
		out = append(out, c16mut{class: "valset", field: field, op: op, apply: ap})
		out = append(out, c16mut{class: "valset", field: field + "+valhash", op: op, apply: func(h *c16hdr) {
			ap(h)
			if h.ValidatorSet != nil {
				if vh, ok := c16valsetHash(h.ValidatorSet); ok {
					h.ValidatorsHash = vh
				}
			}
		}})
	}
	newVal := func(rr *vkit.RNG, power int64) *core.Validator {
		pk := cmted.GenPrivKeyFromSecret(rr.Bytes(32)).PubKey()
		return core.NewValidator(pk, power)
	}
	n := len(h0.ValidatorSet.Validators)
	for _, i := range c16sigIdx(r, n, 3) {
		i := i
		j := (i + 1) % n
		rr := r.SplitN("val", i)
		at := func(field, op string, f func(v *core.Validator, vs *core.ValidatorSet)) {
			add(field, fmt.Sprintf("%s[%d]", op, i), func(vs *core.ValidatorSet) {
				if i < len(vs.Validators) && vs.Validators[i] != nil {
					f(vs.Validators[i], vs)
				}
			})
		}
		at("valset.power", "+1", func(v *core.Validator, _ *core.ValidatorSet) { v.VotingPower++ })
		at("valset.power", "-1", func(v *core.Validator, _ *core.ValidatorSet) { v.VotingPower-- })
		at("valset.power", "x2", func(v *core.Validator, _ *core.ValidatorSet) { v.VotingPower *= 2 })
		at("valset.power", "=0", func(v *core.Validator, _ *core.ValidatorSet) { v.VotingPower = 0 })
		at("valset.power", "negative", func(v *core.Validator, _ *core.ValidatorSet) { v.VotingPower = -v.VotingPower })
		at("valset.power", "huge", func(v *core.Validator, _ *core.ValidatorSet) { v.VotingPower = core.MaxTotalVotingPower })
		at("valset.power", "transfer-to-next", func(v *core.Validator, vs *core.ValidatorSet) {
			if j != i && j < len(vs.Validators) && vs.Validators[j] != nil {
				v.VotingPower--
				vs.Validators[j].VotingPower++
			}
		})
		nv := newVal(rr, 1)
		at("valset.pubkey", "fresh-key", func(v *core.Validator, _ *core.ValidatorSet) {
			v.PubKey, v.Address = nv.PubKey, c16cpb(nv.Address)
		})
		at("valset.pubkey", "fresh-key-stale-address", func(v *core.Validator, _ *core.ValidatorSet) { v.PubKey = nv.PubKey })
		at("valset.pubkey", "next-validators-key", func(v *core.Validator, vs *core.ValidatorSet) {
			if j != i && j < len(vs.Validators) && vs.Validators[j] != nil {
				v.PubKey, v.Address = vs.Validators[j].PubKey, c16cpb(vs.Validators[j].Address)
			}
		})
		at("valset.address", "bitflip", func(v *core.Validator, _ *core.ValidatorSet) { v.Address = c16flip(rr, v.Address) })
		at("valset.priority", "+1", func(v *core.Validator, _ *core.ValidatorSet) { v.ProposerPriority++ })
		at("valset.member", "remove", func(_ *core.Validator, vs *core.ValidatorSet) {
			vs.Validators = append(vs.Validators[:i:i], vs.Validators[i+1:]...)
		})
		at("valset.member", "duplicate", func(v *core.Validator, vs *core.ValidatorSet) {
			vs.Validators = append(vs.Validators, c16cloneVal(v))
		})
		at("valset.member", "nil-entry", func(_ *core.Validator, vs *core.ValidatorSet) { vs.Validators[i] = nil })
		at("valset.order", "swap-with-next", func(_ *core.Validator, vs *core.ValidatorSet) {
			if j < len(vs.Validators) {
				vs.Validators[i], vs.Validators[j] = vs.Validators[j], vs.Validators[i]
			}
		})
		at("valset.proposer", "=member", func(v *core.Validator, vs *core.ValidatorSet) { vs.Proposer = c16cloneVal(v) })
	}
	extra := newVal(r.Split("extra"), h0.ValidatorSet.Validators[0].VotingPower)
	add("valset.member", "append-new", func(vs *core.ValidatorSet) { vs.Validators = append(vs.Validators, c16cloneVal(extra)) })
	add("valset.member", "prepend-new", func(vs *core.ValidatorSet) {
		vs.Validators = append([]*core.Validator{c16cloneVal(extra)}, vs.Validators...)
	})
	tiny := newVal(r.Split("tiny"), 0)
	add("valset.member", "append-zero-power", func(vs *core.ValidatorSet) { vs.Validators = append(vs.Validators, c16cloneVal(tiny)) })
	add("valset.member", "none", func(vs *core.ValidatorSet) { vs.Validators = nil })
	add("valset.member", "keep-first-only", func(vs *core.ValidatorSet) {
		if len(vs.Validators) > 1 {
			vs.Validators = vs.Validators[:1]
		}
	})
	add("valset.order", "reverse", func(vs *core.ValidatorSet) {
		for a, b := 0, len(vs.Validators)-1; a < b; a, b = a+1, b-1 {
			vs.Validators[a], vs.Validators[b] = vs.Validators[b], vs.Validators[a]
		}
	})
	add("valset.power", "all=1", func(vs *core.ValidatorSet) {
		for _, v := range vs.Validators {
			if v != nil {
				v.VotingPower = 1
			}
		}
	})
	// absent voters' power removed: the signers would then exceed 2/3 of a smaller total
	add("valset.power", "non-signers=0", func(vs *core.ValidatorSet) {
		for i, v := range vs.Validators {
			if v != nil && i < len(h0.Commit.Signatures) && h0.Commit.Signatures[i].BlockIDFlag != core.BlockIDFlagCommit {
				v.VotingPower = 0
			}
		}
	})
	add("valset.proposer", "non-member", func(vs *core.ValidatorSet) { vs.Proposer = c16cloneVal(extra) })
	add("valset.proposer", "nil", func(vs *core.ValidatorSet) { vs.Proposer = nil })
	add("valset.proposer", "power+1", func(vs *core.ValidatorSet) {
		if vs.Proposer != nil {
			vs.Proposer.VotingPower++
		}
	})
	add("valset.proposer", "priority+1", func(vs *core.ValidatorSet) {
		if vs.Proposer != nil {
			vs.Proposer.ProposerPriority++
		}
	})
	out = append(out, c16mut{class: "valset", field: "valset.nil", op: "nil", apply: func(h *c16hdr) { h.ValidatorSet = nil }})
	return out
}

// c16substMuts: parts substituted from a neighbouring honest header of the same chain.
func c16substMuts(nb *c16hdr, which string) []c16mut {
	if nb == nil {
		return nil
	}
	raw := func(h *c16hdr) { h.RawHeader = c16clone(nb).RawHeader }
	commit := func(h *c16hdr) { h.Commit = c16cloneCommit(nb.Commit) }
	vals := func(h *c16hdr) { h.ValidatorSet = c16cloneVals(nb.ValidatorSet) }
	dah := func(h *c16hdr) { h.DAH = c16cloneDAH(nb.DAH) }
	mk := func(op string, fs ...func(h *c16hdr)) c16mut {
		return c16mut{class: "subst", field: "subst." + op, op: which, apply: func(h *c16hdr) {
			for _, f := range fs {
				f(h)
			}
		}}
	}
	return []c16mut{
		mk("raw", raw), mk("commit", commit), mk("valset", vals), mk("dah", dah),
		mk("raw+commit", raw, commit), mk("raw+commit+dah", raw, commit, dah), mk("raw+commit+valset", raw, commit, vals),
		mk("commit+valset", commit, vals), mk("commit+dah", commit, dah), mk("valset+dah", vals, dah),
		mk("raw+dah", raw, dah), mk("raw+valset", raw, vals), mk("raw+valset+dah", raw, vals, dah),
		mk("commit+valset+dah", commit, vals, dah),
		mk("dah+DataHash", dah, func(h *c16hdr) { h.DataHash = c16cpb(nb.DataHash) }),
		mk("valset+ValidatorsHash", vals, func(h *c16hdr) { h.ValidatorsHash = c16cpb(nb.ValidatorsHash) }),
		mk("commit.signatures", func(h *c16hdr) {
			if h.Commit != nil && nb.Commit != nil {
				h.Commit.Signatures = c16cloneCommit(nb.Commit).Signatures
			}
		}),
		mk("all", raw, commit, vals, dah),
	}
}
