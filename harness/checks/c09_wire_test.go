package checks

import (
	"bytes"
	"context"
	"crypto/sha256"
	"encoding/binary"
	"errors"
	"fmt"
	"io"
	"os"
	"runtime"
	"strings"
	"sync"
	"time"

	"github.com/libp2p/go-libp2p/core/host"
	"github.com/libp2p/go-libp2p/core/network"
	"github.com/libp2p/go-libp2p/core/peer"

	"github.com/celestiaorg/go-libp2p-messenger/serde"
	libshare "github.com/celestiaorg/go-square/v4/share"

	"github.com/celestiaorg/celestia-node/share/eds"
	"github.com/celestiaorg/celestia-node/share/shwap"
	"github.com/celestiaorg/celestia-node/share/shwap/p2p/shrex"
	shrexpb "github.com/celestiaorg/celestia-node/share/shwap/p2p/shrex/pb"
	"github.com/celestiaorg/celestia-node/zz_verif/vkit"
)

// ---------------------------------------------------------------------------------------------
// Wire model of the five shrex request identifiers (written from the protocol description, not
// by calling the repository's decoders): what a request byte string *means*, and what the
// statement demands as the answer given the stored blocks.

const c09net = "c09net"

const (
	c09pSample = "sample_v0"
	c09pRow    = "row_v0"
	c09pND     = "nd_v0"
	c09pRange  = "rangeNamespaceData_v0"
	c09pEDS    = "eds_v0"
)

var c09protos = []string{c09pSample, c09pRow, c09pND, c09pRange, c09pEDS}

func c09idSize(proto string) int {
	switch proto {
	case c09pEDS:
		return 8
	case c09pRow:
		return 10
	case c09pSample:
		return 12
	case c09pND:
		return 8 + libshare.NamespaceSize
	case c09pRange:
		return 16
	}
	panic("unknown proto " + proto)
}

// c09enc encodes an identifier. a,b: row,col | row | from,to ; ns only for nd.
func c09enc(proto string, h uint64, a, b uint32, ns []byte) []byte {
	out := binary.BigEndian.AppendUint64(nil, h)
	switch proto {
	case c09pRow:
		out = binary.BigEndian.AppendUint16(out, uint16(a))
	case c09pSample:
		out = binary.BigEndian.AppendUint16(out, uint16(a))
		out = binary.BigEndian.AppendUint16(out, uint16(b))
	case c09pND:
		out = append(out, ns...)
	case c09pRange:
		out = binary.BigEndian.AppendUint32(out, a)
		out = binary.BigEndian.AppendUint32(out, b)
	}
	return out
}

// Classes of a request with respect to the stored blocks.
const (
	c09serve    = "serve"    // well-formed for a stored block: must be answered with exactly the data
	c09notfound = "notfound" // passes field validation, height not held: must be answered NOT_FOUND
	c09refuse   = "refuse"   // malformed / truncated / out of bounds: error status or reset, never OK
	c09either   = "either"   // in bounds but not one namespace (range): refusal or exactly the data
)

type c09req struct {
	proto string
	raw   []byte
	op    string // generator label (evidence)

	h     uint64
	a, b  int
	ns    libshare.Namespace
	class string
	why   string
	blk   *c09block
	// seg > 0: the request bytes are written in two pieces, raw[:seg] first (a request may reach the
	// server's reader in any number of segments)
	seg int
}

func (q *c09req) idString() string {
	switch q.proto {
	case c09pSample:
		return fmt.Sprintf("sample(h=%d,row=%d,col=%d)", q.h, q.a, q.b)
	case c09pRow:
		return fmt.Sprintf("row(h=%d,row=%d)", q.h, q.a)
	case c09pND:
		if len(q.raw) >= c09idSize(c09pND) {
			return fmt.Sprintf("nd(h=%d,ns=%x)", q.h, q.raw[8:8+libshare.NamespaceSize])
		}
		return fmt.Sprintf("nd(h=%d)", q.h)
	case c09pRange:
		return fmt.Sprintf("range(h=%d,from=%d,to=%d)", q.h, q.a, q.b)
	}
	return fmt.Sprintf("eds(h=%d)", q.h)
}

// c09classify decodes raw per the wire format and classifies it against the stored blocks.
func c09classify(proto string, raw []byte, blocks map[uint64]*c09block) *c09req {
	q := &c09req{proto: proto, raw: raw}
	n := c09idSize(proto)
	if len(raw) < n {
		q.class, q.why = c09refuse, "short"
		if len(raw) >= 8 {
			q.h = binary.BigEndian.Uint64(raw)
		}
		return q
	}
	// the server reads exactly n bytes; anything after them is not part of the identifier
	q.h = binary.BigEndian.Uint64(raw)
	switch proto {
	case c09pRow:
		q.a = int(binary.BigEndian.Uint16(raw[8:]))
	case c09pSample:
		q.a = int(binary.BigEndian.Uint16(raw[8:]))
		q.b = int(binary.BigEndian.Uint16(raw[10:]))
	case c09pRange:
		q.a = int(binary.BigEndian.Uint32(raw[8:]))
		q.b = int(binary.BigEndian.Uint32(raw[12:]))
	}
	if q.h == 0 {
		q.class, q.why = c09refuse, "height0"
		return q
	}
	switch proto {
	case c09pND:
		ns, err := libshare.NewNamespaceFromBytes(append([]byte(nil), raw[8:8+libshare.NamespaceSize]...))
		if err != nil {
			q.class, q.why = c09refuse, "ns-invalid"
			return q
		}
		if ns.IsParityShares() {
			q.class, q.why = c09refuse, "ns-parity"
			return q
		}
		if ns.IsTailPadding() {
			q.class, q.why = c09refuse, "ns-tailpadding"
			return q
		}
		q.ns = ns
	case c09pRange:
		if q.a >= q.b {
			q.class, q.why = c09refuse, "from>=to"
			return q
		}
	}
	blk := blocks[q.h]
	if blk == nil {
		q.class, q.why = c09notfound, "unknown-height"
		return q
	}
	q.blk = blk
	w := blk.sq.W
	switch proto {
	case c09pRow:
		if q.a >= 2*w {
			q.class, q.why = c09refuse, "oob-row"
			return q
		}
	case c09pSample:
		if q.a >= 2*w {
			q.class, q.why = c09refuse, "oob-row"
			return q
		}
		if q.b >= 2*w {
			q.class, q.why = c09refuse, "oob-col"
			return q
		}
	case c09pRange:
		if q.a >= w*w {
			q.class, q.why = c09refuse, "oob-from"
			return q
		}
		if q.b > w*w {
			q.class, q.why = c09refuse, "oob-to"
			return q
		}
		first := blk.sq.ODS[q.a].Namespace()
		for i := q.a + 1; i < q.b; i++ {
			if !blk.sq.ODS[i].Namespace().Equals(first) {
				q.class, q.why = c09either, "cross-namespace"
				return q
			}
		}
	}
	q.class, q.why = c09serve, "valid"
	return q
}

// ---------------------------------------------------------------------------------------------
// Raw-stream client

var c09judged sync.Map

type c09judgement struct {
	once    sync.Once
	problem string
}

var c09cpu = make(chan struct{}, max(2, runtime.GOMAXPROCS(0)/2))

type c09outcome struct {
	kind    string // ok | status | resource | reset | eof | timeout | error
	status  shrexpb.Status
	payload []byte
	perr    string // error that ended the payload read (other than clean EOF)
	pkind   string
	err     string
}

func (o c09outcome) label() string {
	switch o.kind {
	case "status":
		return "status:" + o.status.String()
	case "ok":
		if o.perr != "" {
			return "ok+" + o.pkind
		}
		return "ok"
	}
	return o.kind
}

func (o c09outcome) isNotFound() bool {
	return o.kind == "status" && o.status == shrexpb.Status_NOT_FOUND
}

func c09errKind(err error) string {
	if err == nil {
		return ""
	}
	var se *network.StreamError
	if errors.As(err, &se) {
		if se.ErrorCode == network.StreamResourceLimitExceeded || se.ErrorCode == network.StreamRateLimited {
			return "resource"
		}
		return "reset"
	}
	if errors.Is(err, network.ErrReset) {
		return "reset"
	}
	if errors.Is(err, os.ErrDeadlineExceeded) || errors.Is(err, context.DeadlineExceeded) {
		return "timeout"
	}
	if errors.Is(err, io.EOF) || errors.Is(err, io.ErrUnexpectedEOF) {
		return "eof"
	}
	s := err.Error()
	if strings.Contains(s, "resource limit exceeded") || strings.Contains(s, "rate limit") {
		return "resource"
	}
	if strings.Contains(s, "deadline") || strings.Contains(s, "timeout") {
		return "timeout"
	}
	if strings.Contains(s, "stream reset") {
		return "reset"
	}
	return "error"
}

type c09rawMode int

const (
	c09closeWrite c09rawMode = iota // write, half-close, read everything (a complete client)
	c09stall                        // write, keep the write side open, wait for the server to give up
	c09abandon                      // write, half-close, read the status, then reset without reading the payload
	c09resetEarly                   // write, reset immediately
)

const c09clientDeadline = 5 * time.Minute

// c09raw performs one raw exchange on the protocol and reports what the server did.
// c09segmentedBase+k: like c09closeWrite, the request written as req[:k] and req[k:].
const c09segmentedBase c09rawMode = 1000

func c09raw(ctx context.Context, h host.Host, srv peer.ID, proto string, req []byte, mode c09rawMode) c09outcome {
	return c09rawD(ctx, h, srv, proto, req, mode, c09clientDeadline)
}

func c09rawD(ctx context.Context, h host.Host, srv peer.ID, proto string, req []byte, mode c09rawMode, c09clientDeadline time.Duration) c09outcome {
	sctx, cancel := context.WithTimeout(ctx, c09clientDeadline)
	defer cancel()
	s, err := h.NewStream(sctx, srv, shrex.ProtocolID(c09net, proto))
	if err != nil {
		return c09outcome{kind: c09errKind(err), err: "open: " + err.Error()}
	}
	defer s.Reset() //nolint:errcheck // no-op after Close
	_ = s.SetDeadline(time.Now().Add(c09clientDeadline))
	if seg := int(mode) - int(c09segmentedBase); seg > 0 && seg < len(req) {
		// two writes with a pause between them, so that they travel (and are read) as two segments; the
		// pause only shapes the traffic, nothing is judged by it
		if _, err := s.Write(req[:seg]); err != nil {
			return c09outcome{kind: c09errKind(err), err: "write: " + err.Error()}
		}
		time.Sleep(40 * time.Millisecond)
		req = req[seg:]
	}
	if len(req) > 0 {
		if _, err := s.Write(req); err != nil {
			return c09outcome{kind: c09errKind(err), err: "write: " + err.Error()}
		}
	}
	switch mode {
	case c09resetEarly:
		_ = s.Reset()
		return c09outcome{kind: "reset", err: "client reset"}
	case c09stall:
	default:
		if err := s.CloseWrite(); err != nil {
			return c09outcome{kind: c09errKind(err), err: "closewrite: " + err.Error()}
		}
	}
	var st shrexpb.Response
	if _, err := serde.Read(s, &st); err != nil {
		return c09outcome{kind: c09errKind(err), err: "status: " + err.Error()}
	}
	if st.Status != shrexpb.Status_OK {
		_ = s.Close()
		return c09outcome{kind: "status", status: st.Status}
	}
	if mode == c09abandon {
		_ = s.Reset()
		return c09outcome{kind: "ok", status: st.Status, perr: "client reset", pkind: "abandoned"}
	}
	out := c09outcome{kind: "ok", status: st.Status}
	payload, err := io.ReadAll(s)
	out.payload = payload
	if err != nil {
		out.perr, out.pkind = err.Error(), c09errKind(err)
	}
	_ = s.Close()
	return out
}

// ---------------------------------------------------------------------------------------------
// Reference comparison of a served payload with the square, for the identifier the request
// bytes decode to. Returns "" when the payload decodes, is accepted by the client-side verifier
// and equals the reference.

func c09checkPayload(q *c09req, payload []byte) (problem string) {
	// decode + verify + compare is a pure function of (identifier, payload): identical replies to
	// the same identifier (floods, repeated PRNG hits) are judged once.
	n := min(len(q.raw), c09idSize(q.proto))
	sum := sha256.Sum256(payload)
	key := q.proto + "|" + string(q.raw[:n]) + "|" + q.class + "|" + string(sum[:])
	v, _ := c09judged.LoadOrStore(key, &c09judgement{})
	j := v.(*c09judgement)
	j.once.Do(func() {
		// verification is CPU-bound: keep it from starving the goroutines that move bytes
		c09cpu <- struct{}{}
		defer func() { <-c09cpu }()
		j.problem = c09checkPayloadUncached(q, payload)
	})
	return j.problem
}

func c09checkPayloadUncached(q *c09req, payload []byte) (problem string) {
	sq := q.blk.sq
	rd := bytes.NewReader(payload)
	pnc, site := vkit.Recover(func() {
		switch q.proto {
		case c09pSample:
			var s shwap.Sample
			if _, err := s.ReadFrom(rd); err != nil {
				problem = "undecodable sample: " + err.Error()
				return
			}
			problem = c09cmpSample(sq, s, q.a, q.b)
		case c09pRow:
			var r shwap.Row
			if _, err := r.ReadFrom(rd); err != nil {
				problem = "undecodable row: " + err.Error()
				return
			}
			problem = c09cmpRow(sq, r, q.a)
		case c09pND:
			var nd shwap.NamespaceData
			if _, err := nd.ReadFrom(rd); err != nil {
				problem = "undecodable namespace data: " + err.Error()
				return
			}
			problem = c09cmpND(sq, nd, q.ns)
		case c09pRange:
			var rg shwap.RangeNamespaceData
			if _, err := rg.ReadFrom(rd); err != nil {
				problem = "undecodable range data: " + err.Error()
				return
			}
			problem = c09cmpRange(sq, &rg, q.a, q.b, q.class == c09serve)
		case c09pEDS:
			problem = c09cmpEDS(sq, payload)
		}
	})
	if pnc != nil {
		return fmt.Sprintf("client-side decode/verify panics at %s: %v", site, pnc)
	}
	return problem
}

func c09cmpSample(sq *vkit.Square, s shwap.Sample, row, col int) string {
	if s.IsEmpty() {
		return "empty sample"
	}
	if err := s.Verify(sq.Roots, row, col); err != nil {
		return "sample rejected by verifier: " + err.Error()
	}
	if !bytes.Equal(s.Share.ToBytes(), sq.Cell(row, col)) {
		return "sample share differs from the committed cell"
	}
	return ""
}

func c09cmpRow(sq *vkit.Square, r shwap.Row, idx int) string {
	if r.IsEmpty() {
		return "empty row"
	}
	if err := r.Verify(sq.Roots, idx); err != nil {
		return "row rejected by verifier: " + err.Error()
	}
	shs, err := r.Shares()
	if err != nil {
		return "row shares: " + err.Error()
	}
	if !vkit.EqualShares(shs, sq.ExtRowShares(idx)) {
		return "row shares differ from the committed row"
	}
	return ""
}

func c09cmpND(sq *vkit.Square, nd shwap.NamespaceData, ns libshare.Namespace) string {
	if err := nd.Verify(sq.Roots, ns); err != nil {
		return "namespace data rejected by verifier: " + err.Error()
	}
	if !vkit.EqualShares(nd.Flatten(), sq.SharesOf(ns)) {
		return fmt.Sprintf("namespace data differs: got %d shares, block has %d", len(nd.Flatten()), len(sq.SharesOf(ns)))
	}
	return ""
}

func c09cmpRange(sq *vkit.Square, rg *shwap.RangeNamespaceData, from, to int, mustVerify bool) string {
	w := sq.W
	if rg.IsEmpty() {
		return "empty range data"
	}
	if !vkit.EqualShares(rg.Flatten(), sq.ODS[from:to]) {
		return fmt.Sprintf("range shares differ from ODS[%d:%d) (got %d shares)", from, to, len(rg.Flatten()))
	}
	// split into rows exactly as the block has them
	i := from
	for r, row := range rg.Shares {
		end := min((i/w+1)*w, to)
		if len(row) != end-i {
			return fmt.Sprintf("range row %d has %d shares, want %d", r, len(row), end-i)
		}
		i = end
	}
	if !mustVerify {
		return ""
	}
	fc, err := shwap.SampleCoordsFrom1DIndex(from, w)
	if err != nil {
		return err.Error()
	}
	tc, err := shwap.SampleCoordsFrom1DIndex(to-1, w)
	if err != nil {
		return err.Error()
	}
	if err := rg.VerifyInclusion(fc, tc, w, sq.Roots.RowRoots[fc.Row:tc.Row+1]); err != nil {
		return "range data rejected by verifier: " + err.Error()
	}
	return ""
}

func c09cmpEDS(sq *vkit.Square, payload []byte) string {
	if len(payload) == 0 {
		return "empty EDS payload"
	}
	acc, err := eds.ReadAccessor(context.Background(), bytes.NewReader(payload), sq.Roots)
	if err != nil {
		return "EDS rejected by verifier: " + err.Error()
	}
	if !acc.ExtendedDataSquare.Equals(sq.EDS) {
		return "EDS differs from the stored square"
	}
	return ""
}

func c09hex(b []byte) string {
	if len(b) > 96 {
		return fmt.Sprintf("%x…(%d bytes)", b[:96], len(b))
	}
	return fmt.Sprintf("%x", b)
}
