package checks

import (
	"bytes"
	"context"
	"fmt"
	"math"

	"github.com/celestiaorg/celestia-app/v9/pkg/appconsts"
	"github.com/celestiaorg/go-square/merkle"
	square "github.com/celestiaorg/go-square/v4"
	"github.com/celestiaorg/go-square/v4/inclusion"
	libshare "github.com/celestiaorg/go-square/v4/share"
	"github.com/celestiaorg/go-square/v4/tx"

	"github.com/celestiaorg/celestia-node/blob"
	"github.com/celestiaorg/celestia-node/share/eds"
	"github.com/celestiaorg/celestia-node/share/shwap"
	"github.com/celestiaorg/celestia-node/zz_verif/vkit"
)

// c20RefBlob is the construction record of one blob put into a block: the reference the
// subscription responses are compared with.
type c20RefBlob struct {
	NS         []byte
	Data       []byte
	Signer     []byte
	Ver        uint8
	Commitment []byte
	Index      int // index of the first share in the EDS (row-major over the extended width)
}

// c20Block is a real block (square built by the real square builder from blob transactions,
// extended and committed) with its reference: which blobs every namespace has, in block order.
type c20Block struct {
	id  int
	sq  *vkit.Square
	ref map[string][]c20RefBlob        // key string(ns.Bytes())
	nd  map[string]shwap.NamespaceData // what an honest getter serves, per namespace of the universe
}

// c20Pool is a small pool of blocks shared (read-only) by all runs of a test: building squares is
// the expensive part, scenarios only pick which block sits at which height.
type c20Pool struct {
	blocks []*c20Block
	used   []libshare.Namespace // namespaces blobs are published under
	absent []libshare.Namespace // never present: below / between / above the used ones
	all    []libshare.Namespace
}

func c20Key(ns libshare.Namespace) string { return string(ns.Bytes()) }

var c20BlobSizes = []int{1, 17, 100, 477, 478, 479, 960, 2000, 5000, 9000}

func c20BuildPool(r *vkit.RNG, n int) (*c20Pool, error) {
	p := &c20Pool{}
	for i := 0; i < 5; i++ {
		p.used = append(p.used, vkit.MkNamespace(uint64(2000+100*i)))
	}
	p.absent = []libshare.Namespace{vkit.MkNamespace(1500), vkit.MkNamespace(2150), vkit.MkNamespace(9000)}
	p.all = append(append([]libshare.Namespace{}, p.used...), p.absent...)
	for i := 0; i < n; i++ {
		b, err := c20BuildBlock(r.SplitN("block", i), p, i)
		if err != nil {
			return nil, fmt.Errorf("block %d: %w", i, err)
		}
		p.blocks = append(p.blocks, b)
	}
	return p, nil
}

func c20BuildBlock(r *vkit.RNG, p *c20Pool, id int) (*c20Block, error) {
	type item struct {
		ns libshare.Namespace
		b  *libshare.Blob
	}
	var items []item
	// block 0 is the empty block, block 1 has every namespace; the rest are random
	for k, ns := range p.used {
		present := r.Chance(1, 2)
		if id == 0 {
			present = false
		}
		if id == 1 || (id == 2 && k == 0) {
			present = true
		}
		if !present {
			continue
		}
		for j, nb := 0, r.Range(1, 3); j < nb; j++ {
			data := r.Bytes(vkit.Pick(r, c20BlobSizes))
			var lb *libshare.Blob
			var err error
			if r.Chance(1, 4) {
				lb, err = libshare.NewV1Blob(ns, data, r.Bytes(libshare.SignerSize))
			} else {
				lb, err = libshare.NewV0Blob(ns, data)
			}
			if err != nil {
				return nil, err
			}
			items = append(items, item{ns, lb})
		}
	}
	r.Shuffle(len(items), func(i, j int) { items[i], items[j] = items[j], items[i] })
	var txs [][]byte
	if id != 0 {
		for j, nt := 0, r.Intn(3); j < nt; j++ {
			txs = append(txs, r.Bytes(r.Range(40, 300)))
		}
	}
	// the order in which blobs enter the builder is the order inside a namespace (stable sort)
	order := map[string][]*libshare.Blob{}
	for i := 0; i < len(items); {
		k := min(r.Range(1, 2), len(items)-i)
		var bs []*libshare.Blob
		for _, it := range items[i : i+k] {
			bs = append(bs, it.b)
			order[c20Key(it.ns)] = append(order[c20Key(it.ns)], it.b)
		}
		btx, err := tx.MarshalBlobTx(r.Bytes(r.Range(60, 200)), bs...)
		if err != nil {
			return nil, err
		}
		txs = append(txs, btx)
		i += k
	}
	sqr, kept, err := square.Build(txs, 64, appconsts.SubtreeRootThreshold)
	if err != nil {
		return nil, err
	}
	if len(kept) != len(txs) {
		return nil, fmt.Errorf("square builder dropped transactions (%d of %d kept)", len(kept), len(txs))
	}
	w := int(math.Round(math.Sqrt(float64(len(sqr)))))
	if w*w != len(sqr) {
		return nil, fmt.Errorf("square of %d shares", len(sqr))
	}
	blk := &c20Block{id: id, sq: vkit.BuildSquare([]libshare.Share(sqr), w, "blobs"), ref: map[string][]c20RefBlob{}, nd: map[string]shwap.NamespaceData{}}
	for _, ns := range p.all {
		key := c20Key(ns)
		// start indices: sequence-start, non-padding shares of the namespace in the ODS
		var starts []int
		for i, sh := range blk.sq.ODS {
			if sh.Namespace().Equals(ns) && sh.IsSequenceStart() && !sh.IsPadding() {
				starts = append(starts, (i/w)*2*w+i%w)
			}
		}
		if len(starts) != len(order[key]) {
			return nil, fmt.Errorf("reference model: %d blob starts in the square for %d blobs put in", len(starts), len(order[key]))
		}
		refs := []c20RefBlob{}
		for i, lb := range order[key] {
			com, err := inclusion.CreateCommitment(lb, merkle.HashFromByteSlices, appconsts.SubtreeRootThreshold)
			if err != nil {
				return nil, err
			}
			refs = append(refs, c20RefBlob{NS: ns.Bytes(), Data: lb.Data(), Signer: lb.Signer(), Ver: lb.ShareVersion(), Commitment: com, Index: starts[i]})
		}
		blk.ref[key] = refs
		nd, err := eds.NamespaceData(context.Background(), &eds.Rsmt2D{ExtendedDataSquare: blk.sq.EDS}, ns)
		if err != nil {
			return nil, fmt.Errorf("honest namespace data: %w", err)
		}
		blk.nd[key] = nd
	}
	return blk, nil
}

// c20CompareBlobs returns "" when the response blobs are exactly the reference blobs.
func c20CompareBlobs(got []*blob.Blob, want []c20RefBlob) string {
	if len(got) != len(want) {
		return fmt.Sprintf("%d blobs, reference has %d", len(got), len(want))
	}
	for i, g := range got {
		w := want[i]
		switch {
		case g == nil || g.Blob == nil:
			return fmt.Sprintf("blob %d is nil", i)
		case !bytes.Equal(g.Namespace().Bytes(), w.NS):
			return fmt.Sprintf("blob %d: namespace %x, reference %x", i, g.Namespace().Bytes(), w.NS)
		case !bytes.Equal(g.Data(), w.Data):
			return fmt.Sprintf("blob %d: data differs (%d bytes, reference %d bytes)", i, len(g.Data()), len(w.Data))
		case g.ShareVersion() != w.Ver:
			return fmt.Sprintf("blob %d: share version %d, reference %d", i, g.ShareVersion(), w.Ver)
		case !bytes.Equal(g.Signer(), w.Signer):
			return fmt.Sprintf("blob %d: signer differs", i)
		case !bytes.Equal(g.Commitment, w.Commitment):
			return fmt.Sprintf("blob %d: commitment %x, reference %x", i, []byte(g.Commitment), w.Commitment)
		case g.Index() != w.Index:
			return fmt.Sprintf("blob %d: index %d, reference %d", i, g.Index(), w.Index)
		}
	}
	return ""
}
