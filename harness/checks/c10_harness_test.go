package checks

import (
	"bytes"
	"context"
	"fmt"
	"reflect"
	"sync"
	"sync/atomic"
	"time"

	"github.com/ipfs/boxo/exchange"
	blocks "github.com/ipfs/go-block-format"
	"github.com/ipfs/go-cid"

	libshare "github.com/celestiaorg/go-square/v4/share"

	"github.com/celestiaorg/celestia-node/share"
	"github.com/celestiaorg/celestia-node/share/eds"
	"github.com/celestiaorg/celestia-node/share/shwap"
	"github.com/celestiaorg/celestia-node/share/shwap/p2p/bitswap"
	bitswappb "github.com/celestiaorg/celestia-node/share/shwap/p2p/bitswap/pb"
	"github.com/celestiaorg/celestia-node/store"
	"github.com/celestiaorg/celestia-node/zz_verif/vkit"
)

// ---------------------------------------------------------------------------------------------
// c10Ex: a fake exchange.SessionExchange that models exactly what the boxo bitswap client does
// with an incoming message (bitswap/message.newMessageFromProto + client.receiveBlocksFrom):
//
//   for every payload entry (prefix, data):   c, err := prefix.Sum(data)      <- runs the registered hasher
//       err != nil  => the WHOLE message is dropped
//       otherwise   => msg.blocks[c] = block(data, c)                         <- map: a later entry with the same CID replaces an earlier one
//   every block of the message whose CID some GetBlocks call still waits for is handed to that
//   call exactly once; a call's channel is closed when all its CIDs arrived or its context ended.
//   NotifyNewBlocks publishes blocks to waiting calls WITHOUT hashing (client.NotifyNewBlocks).
//
// The sender only chooses (prefix, data); which request the bytes are accepted for is decided by
// the receiver: the request whose CID equals prefix.Sum(data).

type c10Payload struct {
	Prefix cid.Prefix
	Data   []byte
}

type c10Call struct {
	remaining map[cid.Cid]struct{}
	out       chan blocks.Block
	unwatch   func() bool
	closed    bool
	held      bool
	queue     []blocks.Block
}

type c10Ex struct {
	mu      sync.Mutex
	calls   map[*c10Call]struct{}
	arrived chan *c10Call
	notifs  atomic.Int64
}

func c10NewEx() *c10Ex {
	return &c10Ex{calls: map[*c10Call]struct{}{}, arrived: make(chan *c10Call, 4096)}
}

func (e *c10Ex) GetBlock(ctx context.Context, k cid.Cid) (blocks.Block, error) {
	ch, err := e.GetBlocks(ctx, []cid.Cid{k})
	if err != nil {
		return nil, err
	}
	select {
	case b, ok := <-ch:
		if !ok {
			return nil, ctx.Err()
		}
		return b, nil
	case <-ctx.Done():
		return nil, ctx.Err()
	}
}

func (e *c10Ex) GetBlocks(ctx context.Context, ks []cid.Cid) (<-chan blocks.Block, error) {
	call := e.getBlocks(ctx, ks)
	select {
	case e.arrived <- call:
	default:
	}
	return call.out, nil
}

func (e *c10Ex) getBlocks(ctx context.Context, ks []cid.Cid) *c10Call {
	call := &c10Call{remaining: map[cid.Cid]struct{}{}, out: make(chan blocks.Block, len(ks)+1)}
	for _, k := range ks {
		call.remaining[k] = struct{}{}
	}
	e.mu.Lock()
	if len(call.remaining) == 0 {
		call.closed = true
		close(call.out)
	} else {
		e.calls[call] = struct{}{}
		// like boxo: the channel is closed when the context ends
		call.unwatch = context.AfterFunc(ctx, func() {
			e.mu.Lock()
			e.endLocked(call)
			e.mu.Unlock()
		})
	}
	e.mu.Unlock()
	return call
}

func (e *c10Ex) endLocked(call *c10Call) {
	if call.closed {
		return
	}
	call.closed = true
	for _, b := range call.queue { // blocks boxo had already put on the (buffered) channel
		call.out <- b
	}
	call.queue = nil
	close(call.out)
	if call.unwatch != nil {
		call.unwatch()
	}
	delete(e.calls, call)
}

// hold models a subscriber goroutine that is not scheduled for a while: blocks published to the
// call are queued and handed over on release (boxo's subscription channels are buffered).
func (e *c10Ex) hold(call *c10Call) {
	e.mu.Lock()
	call.held = true
	e.mu.Unlock()
}

func (e *c10Ex) release(call *c10Call) {
	e.mu.Lock()
	defer e.mu.Unlock()
	call.held = false
	if call.closed {
		return
	}
	for _, b := range call.queue {
		call.out <- b
	}
	call.queue = nil
	if len(call.remaining) == 0 {
		e.endLocked(call)
	}
}

// publish hands blk to every call still waiting for its CID; returns those calls.
func (e *c10Ex) publish(blk blocks.Block) []*c10Call {
	e.mu.Lock()
	defer e.mu.Unlock()
	var got []*c10Call
	for call := range e.calls {
		if _, ok := call.remaining[blk.Cid()]; !ok {
			continue
		}
		delete(call.remaining, blk.Cid())
		got = append(got, call)
		if call.held {
			call.queue = append(call.queue, blk)
			continue
		}
		call.out <- blk // buffered for every requested CID: never blocks
		if len(call.remaining) == 0 {
			e.endLocked(call)
		}
	}
	return got
}

func (e *c10Ex) wanted(k cid.Cid) bool {
	e.mu.Lock()
	defer e.mu.Unlock()
	for call := range e.calls {
		if _, ok := call.remaining[k]; ok {
			return true
		}
	}
	return false
}

func (e *c10Ex) NotifyNewBlocks(_ context.Context, blks ...blocks.Block) error {
	e.notifs.Add(int64(len(blks)))
	for _, b := range blks {
		e.publish(b)
	}
	return nil
}

func (e *c10Ex) NewSession(context.Context) exchange.Fetcher { return e }

// awaitNotifs waits for the logical event "Fetch goroutines have passed n blocks in total to
// NotifyNewBlocks" (a Fetch does that for every block it takes from its channel).
func (e *c10Ex) awaitNotifs(run *vkit.Run, n int64) bool {
	deadline := time.Now().Add(c10Watchdog)
	for e.notifs.Load() < n {
		if time.Now().After(deadline) {
			run.Inconclusive("watchdog: Fetch did not take a delivered block from its channel")
			return false
		}
		time.Sleep(20 * time.Microsecond)
	}
	return true
}

func (e *c10Ex) Close() error { return nil }

// c10Msg is a decoded message: what boxo holds after newMessageFromProto.
type c10Msg struct {
	order []cid.Cid
	blks  map[cid.Cid]blocks.Block
	sums  []cid.Cid // per payload entry
}

// decode runs the receive-side hashing of a whole message. err != nil: message dropped.
func (e *c10Ex) decode(msg []c10Payload) (*c10Msg, error) {
	m := &c10Msg{blks: map[cid.Cid]blocks.Block{}}
	for _, p := range msg {
		c, err := p.Prefix.Sum(p.Data)
		if err != nil {
			return nil, err
		}
		b, err := blocks.NewBlockWithCid(p.Data, c)
		if err != nil {
			return nil, err
		}
		if _, ok := m.blks[c]; !ok {
			m.order = append(m.order, c)
		}
		m.blks[c] = b
		m.sums = append(m.sums, c)
	}
	return m, nil
}

// deliver publishes the wanted blocks of a decoded message; returns the calls served per CID.
func (e *c10Ex) deliver(m *c10Msg) map[cid.Cid][]*c10Call {
	out := map[cid.Cid][]*c10Call{}
	for _, c := range m.order {
		if !e.wanted(c) {
			continue
		}
		out[c] = e.publish(m.blks[c])
	}
	return out
}

// receive = decode + deliver of a one-entry message.
func (e *c10Ex) receive(prefix cid.Prefix, data []byte) (sum cid.Cid, served []*c10Call, err error) {
	m, err := e.decode([]c10Payload{{prefix, data}})
	if err != nil {
		return cid.Undef, nil, err
	}
	return m.sums[0], e.deliver(m)[m.sums[0]], nil
}

// ---------------------------------------------------------------------------------------------
// Requests: a Block of one of the four kinds + its reference answer in the vkit.Square.

type c10Req struct {
	kind  string
	pos   string
	blk   bitswap.Block
	cid   cid.Cid
	idBin []byte
	// zero reports whether the container is untouched (Go zero value).
	zero func() bool
	// diff compares the container with the reference square and verifies it against roots;
	// "" means equal and verified.
	diff func() string
	// fresh builds a new empty request for the same identifier.
	fresh func() *c10Req
	// reset empties the container of this Block object (the request is as if never answered).
	reset func()
}

func c10IDBin(c cid.Cid) []byte { return append([]byte(nil), c.Hash()[4:]...) }

func c10SampleReq(sq *vkit.Square, h uint64, row, col int) (*c10Req, error) {
	b, err := bitswap.NewEmptySampleBlock(h, shwap.SampleCoords{Row: row, Col: col}, 2*sq.W)
	if err != nil {
		return nil, err
	}
	r := &c10Req{kind: "sample", pos: fmt.Sprintf("(%d,%d)", row, col), blk: b, cid: b.CID()}
	r.idBin = c10IDBin(r.cid)
	r.zero = func() bool { return reflect.ValueOf(b.Container).IsZero() }
	r.diff = func() string {
		if b.Container.IsEmpty() {
			return "container empty"
		}
		if !bytes.Equal(b.Container.ToBytes(), sq.Cell(row, col)) {
			return "share differs from the square"
		}
		if err := b.Container.Verify(sq.Roots, row, col); err != nil {
			return "does not verify: " + err.Error()
		}
		return ""
	}
	r.fresh = func() *c10Req { n, _ := c10SampleReq(sq, h, row, col); return n }
	r.reset = func() { b.Container = shwap.Sample{} }
	return r, nil
}

func c10RowReq(sq *vkit.Square, h uint64, row int) (*c10Req, error) {
	b, err := bitswap.NewEmptyRowBlock(h, row, 2*sq.W)
	if err != nil {
		return nil, err
	}
	r := &c10Req{kind: "row", pos: fmt.Sprintf("row=%d", row), blk: b, cid: b.CID()}
	r.idBin = c10IDBin(r.cid)
	r.zero = func() bool { return reflect.ValueOf(b.Container).IsZero() }
	r.diff = func() string {
		if b.Container.IsEmpty() {
			return "container empty"
		}
		got, err := b.Container.Shares()
		if err != nil {
			return "Shares(): " + err.Error()
		}
		if !vkit.EqualShares(got, sq.ExtRowShares(row)) {
			return "row differs from the square"
		}
		return ""
	}
	r.fresh = func() *c10Req { n, _ := c10RowReq(sq, h, row); return n }
	r.reset = func() { b.Container = shwap.Row{} }
	return r, nil
}

func c10RNDReq(sq *vkit.Square, h uint64, row int, ns libshare.Namespace) (*c10Req, error) {
	b, err := bitswap.NewEmptyRowNamespaceDataBlock(h, row, ns, 2*sq.W)
	if err != nil {
		return nil, err
	}
	r := &c10Req{kind: "rnd", pos: fmt.Sprintf("row=%d ns=%x", row, ns.ID()[18:]), blk: b, cid: b.CID()}
	r.idBin = c10IDBin(r.cid)
	r.zero = func() bool { return reflect.ValueOf(b.Container).IsZero() }
	r.diff = func() string {
		if b.Container.IsEmpty() {
			return "container empty"
		}
		if row >= sq.W {
			return "namespace data for a parity row"
		}
		want, _ := sq.RowSharesOf(ns, row)
		if !vkit.EqualShares(b.Container.Shares, want) {
			return fmt.Sprintf("shares differ from the square (%d, want %d)", len(b.Container.Shares), len(want))
		}
		if err := b.Container.Verify(sq.Roots, ns, row); err != nil {
			return "does not verify: " + err.Error()
		}
		return ""
	}
	r.fresh = func() *c10Req { n, _ := c10RNDReq(sq, h, row, ns); return n }
	r.reset = func() { b.Container = shwap.RowNamespaceData{} }
	return r, nil
}

func c10RefRows(sq *vkit.Square, from, to int) [][]libshare.Share {
	var out [][]libshare.Share
	for i := from; i < to; {
		end := min((i/sq.W+1)*sq.W, to)
		out = append(out, sq.ODS[i:end])
		i = end
	}
	return out
}

func c10RangeReq(sq *vkit.Square, h uint64, from, to int) (*c10Req, error) {
	b, err := bitswap.NewEmptyRangeNamespaceDataBlock(h, from, to, sq.W)
	if err != nil {
		return nil, err
	}
	r := &c10Req{kind: "range", pos: fmt.Sprintf("[%d,%d)", from, to), blk: b, cid: b.CID()}
	r.idBin = c10IDBin(r.cid)
	r.zero = func() bool { return reflect.ValueOf(b.Container).IsZero() }
	r.diff = func() string {
		if b.Container.IsEmpty() {
			return "container empty"
		}
		want := c10RefRows(sq, from, to)
		if len(want) != len(b.Container.Shares) {
			return fmt.Sprintf("%d rows, want %d", len(b.Container.Shares), len(want))
		}
		for i := range want {
			if !vkit.EqualShares(want[i], b.Container.Shares[i]) {
				return fmt.Sprintf("row %d of the range differs from the square", i)
			}
		}
		if !vkit.EqualShares(b.Container.Flatten(), sq.ODS[from:to]) {
			return "flattened range differs from the square"
		}
		fc, err1 := shwap.SampleCoordsFrom1DIndex(from, sq.W)
		tc, err2 := shwap.SampleCoordsFrom1DIndex(to-1, sq.W)
		if err1 != nil || err2 != nil {
			return "coords"
		}
		if err := b.Container.VerifyInclusion(fc, tc, sq.W, sq.Roots.RowRoots[fc.Row:tc.Row+1]); err != nil {
			return "does not verify: " + err.Error()
		}
		return ""
	}
	r.fresh = func() *c10Req { n, _ := c10RangeReq(sq, h, from, to); return n }
	r.reset = func() { b.Container = shwap.RangeNamespaceData{} }
	return r, nil
}

// ---------------------------------------------------------------------------------------------
// Envelope helpers (independent of the code under test: plain protobuf of pb.Block).

func c10Envelope(c []byte, container []byte) []byte {
	b, err := (&bitswappb.Block{Cid: c, Container: container}).Marshal()
	if err != nil {
		panic(err)
	}
	return b
}

// c10Open decodes an envelope; ok=false if it is not one.
func c10Open(data []byte) (inner cid.Cid, container []byte, ok bool) {
	var b bitswappb.Block
	if err := b.Unmarshal(data); err != nil {
		return cid.Undef, nil, false
	}
	c, err := cid.Cast(b.Cid)
	if err != nil {
		return cid.Undef, b.Container, false
	}
	return c, b.Container, true
}

// ---------------------------------------------------------------------------------------------
// Serving side: bitswap.Blockstore over a real store / over in-memory squares.

type c10MemGetter struct {
	mu sync.Mutex
	m  map[uint64]*vkit.Square
}

func (g *c10MemGetter) put(h uint64, sq *vkit.Square) {
	g.mu.Lock()
	if g.m == nil {
		g.m = map[uint64]*vkit.Square{}
	}
	g.m[h] = sq
	g.mu.Unlock()
}

func (g *c10MemGetter) GetByHeight(_ context.Context, h uint64) (eds.AccessorStreamer, error) {
	g.mu.Lock()
	sq := g.m[h]
	g.mu.Unlock()
	if sq == nil {
		return nil, store.ErrNotFound
	}
	return &eds.Rsmt2D{ExtendedDataSquare: sq.EDS}, nil
}

func (g *c10MemGetter) HasByHeight(_ context.Context, h uint64) (bool, error) {
	g.mu.Lock()
	defer g.mu.Unlock()
	return g.m[h] != nil, nil
}

// c10MemStore is the local blockstore handed to Fetch via WithStore (only Put is used by Fetch).
type c10MemStore struct {
	mu   sync.Mutex
	m    map[cid.Cid][]byte
	puts int
}

func (s *c10MemStore) Put(_ context.Context, b blocks.Block) error {
	s.mu.Lock()
	if s.m == nil {
		s.m = map[cid.Cid][]byte{}
	}
	s.m[b.Cid()] = append([]byte(nil), b.RawData()...)
	s.puts++
	s.mu.Unlock()
	return nil
}
func (s *c10MemStore) get(k cid.Cid) ([]byte, bool) {
	s.mu.Lock()
	defer s.mu.Unlock()
	b, ok := s.m[k]
	return b, ok
}
func (s *c10MemStore) DeleteBlock(context.Context, cid.Cid) error { return nil }
func (s *c10MemStore) Has(_ context.Context, k cid.Cid) (bool, error) {
	_, ok := s.get(k)
	return ok, nil
}
func (s *c10MemStore) Get(_ context.Context, k cid.Cid) (blocks.Block, error) {
	b, ok := s.get(k)
	if !ok {
		return nil, fmt.Errorf("not found")
	}
	return blocks.NewBlockWithCid(b, k)
}
func (s *c10MemStore) GetSize(_ context.Context, k cid.Cid) (int, error) {
	b, ok := s.get(k)
	if !ok {
		return 0, fmt.Errorf("not found")
	}
	return len(b), nil
}
func (s *c10MemStore) PutMany(ctx context.Context, bs []blocks.Block) error {
	for _, b := range bs {
		_ = s.Put(ctx, b)
	}
	return nil
}
func (s *c10MemStore) AllKeysChan(context.Context) (<-chan cid.Cid, error) {
	ch := make(chan cid.Cid)
	close(ch)
	return ch, nil
}
func (s *c10MemStore) HashOnRead(bool) {}

// ---------------------------------------------------------------------------------------------
// Pending fetches.

const c10Watchdog = 60 * time.Second

type c10Pend struct {
	ex      *c10Ex
	reqs    []*c10Req
	cancel  context.CancelFunc
	done    chan struct{}
	arrived chan struct{}
	err     error
	pnc     any
	site    string
	call    *c10Call
	store   *c10MemStore
}

func (p *c10Pend) finished() bool {
	select {
	case <-p.done:
		return true
	default:
		return false
	}
}

// c10Tag is the exchange.Fetcher handed to Fetch (WithFetcher): it forwards to the exchange and
// tells the harness which GetBlocks call belongs to which Fetch.
type c10Tag struct {
	ex *c10Ex
	p  *c10Pend
}

func (t *c10Tag) GetBlock(ctx context.Context, k cid.Cid) (blocks.Block, error) {
	return t.ex.GetBlock(ctx, k)
}

func (t *c10Tag) GetBlocks(ctx context.Context, ks []cid.Cid) (<-chan blocks.Block, error) {
	call := t.ex.getBlocks(ctx, ks)
	t.p.call = call
	select {
	case t.p.arrived <- struct{}{}:
	default:
	}
	return call.out, nil
}

// c10Launch starts bitswap.Fetch for the requests in a goroutine (does not wait).
func c10Launch(ex *c10Ex, roots *share.AxisRoots, withStore bool, reqs ...*c10Req) *c10Pend {
	ctx, cancel := context.WithCancel(context.Background())
	p := &c10Pend{ex: ex, reqs: reqs, cancel: cancel, done: make(chan struct{}), arrived: make(chan struct{}, 4)}
	blks := make([]bitswap.Block, len(reqs))
	for i, r := range reqs {
		blks[i] = r.blk
	}
	opts := []bitswap.FetchOption{bitswap.WithFetcher(&c10Tag{ex: ex, p: p})}
	if withStore {
		p.store = &c10MemStore{}
		opts = append(opts, bitswap.WithStore(p.store))
	}
	go func() {
		defer close(p.done)
		p.pnc, p.site = vkit.Recover(func() { p.err = bitswap.Fetch(ctx, ex, roots, blks, opts...) })
	}()
	return p
}

// awaitRegistered returns once Fetch registered its verifiers and waits in GetBlocks (logical
// event: the GetBlocks call reached the exchange), or Fetch returned early.
func (p *c10Pend) awaitRegistered(run *vkit.Run) bool {
	select {
	case <-p.arrived:
		return true
	case <-p.done:
		return false
	case <-time.After(c10Watchdog):
		run.Inconclusive("watchdog: Fetch did not reach GetBlocks")
		return false
	}
}

// c10Start = launch + awaitRegistered.
func c10Start(run *vkit.Run, ex *c10Ex, roots *share.AxisRoots, withStore bool, reqs ...*c10Req) *c10Pend {
	p := c10Launch(ex, roots, withStore, reqs...)
	p.awaitRegistered(run)
	return p
}

// outstanding is the number of CIDs the Fetch's GetBlocks call still waits for.
func (p *c10Pend) outstanding(ex *c10Ex) int {
	if p.call == nil {
		return 0
	}
	ex.mu.Lock()
	defer ex.mu.Unlock()
	if p.call.closed {
		return 0
	}
	return len(p.call.remaining)
}

// wait blocks until Fetch returned (watchdog ⇒ inconclusive, false).
func (p *c10Pend) wait(run *vkit.Run) bool {
	select {
	case <-p.done:
		return true
	case <-time.After(c10Watchdog):
		run.Inconclusive("watchdog: Fetch did not return after its channel was closed")
		return false
	}
}

// stop ends a pending Fetch (its channel is closed, as boxo does when the context ends, and the
// context is cancelled) and waits for it to return.
func (p *c10Pend) stop(run *vkit.Run) {
	if p.call != nil {
		p.ex.mu.Lock()
		p.ex.endLocked(p.call)
		p.ex.mu.Unlock()
	}
	p.cancel()
	p.wait(run)
}

// outstanding/stop helpers need the exchange only through the call; closing on cancellation is
// done by the context watcher registered in getBlocks.
