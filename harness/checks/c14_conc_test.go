package checks

import (
	"context"
	"fmt"
	"os"
	"strconv"
	"sync"
	"time"

	"github.com/celestiaorg/celestia-node/pruner"
	"github.com/celestiaorg/celestia-node/zz_verif/vkit"
)

// C14, concurrent lives: the real ticker loop (tiny interval) prunes while the mock header store
// grows its head and a "syncer" goroutine advances its tail (OnDelete -> pruneOnHeaderDelete), under
// the race detector. Verdicts are still logical: safety at every Prune call, checkpoint monotonic,
// liveness judged after the world stopped changing and the allowed number of cycles *started*
// (counted by the cycle's first header-store call). Wall clock is only a watchdog (inconclusive).

// deleteParallel mimics go-header's parallel range delete (used by the real store for ranges of
// 10 000+ headers): handlers for different heights run concurrently, the tail moves at the end.
func (s *c14hstore) deleteParallel(ctx context.Context, from, to uint64, workers int) error {
	s.mu.Lock()
	hs := append([]func(context.Context, uint64) error(nil), s.handlers...)
	tail := s.tail
	s.mu.Unlock()
	if from != tail || from >= to {
		return fmt.Errorf("c14hstore: unsupported parallel delete range [%d,%d) with tail %d", from, to, tail)
	}
	ctx = context.WithValue(ctx, c14onDeleteKey{}, true)
	jobs := make(chan uint64, workers)
	var wg sync.WaitGroup
	var emu sync.Mutex
	var firstErr error
	lowestErr := to
	for w := 0; w < workers; w++ {
		wg.Add(1)
		go func() {
			defer wg.Done()
			for h := range jobs {
				for _, fn := range hs {
					if err := fn(ctx, h); err != nil {
						emu.Lock()
						if h < lowestErr {
							lowestErr, firstErr = h, err
						}
						emu.Unlock()
					}
				}
			}
		}()
	}
	for h := from; h < to; h++ {
		jobs <- h
	}
	close(jobs)
	wg.Wait()
	s.mu.Lock()
	s.tail = lowestErr
	s.mu.Unlock()
	return firstErr
}

func (c *c14) concurrentGroup(ctx context.Context, r *vkit.RNG, batch, n int) {
	par, _ := strconv.Atoi(os.Getenv("VERIF_C14_PARALLEL_DELETE"))
	var wg sync.WaitGroup
	sem := make(chan struct{}, 8)
	for i := 0; i < n; i++ {
		wg.Add(1)
		sem <- struct{}{}
		go func(i int) {
			defer wg.Done()
			defer func() { <-sem }()
			c.concurrent(ctx, r.SplitN("life", i), 900000+batch*1000+i, batch, par)
		}(i)
	}
	wg.Wait()
}

// waitCycles waits until the ticker loop has started n more cycles (watchdog => false).
func (s *c14scn) waitCycles(n int64) bool {
	target := s.hs.tailCalls.Load() + n
	deadline := time.Now().Add(90 * time.Second)
	for s.hs.tailCalls.Load() < target {
		if time.Now().After(deadline) {
			return false
		}
		time.Sleep(100 * time.Microsecond)
	}
	return true
}

func (c *c14) concurrent(ctx context.Context, r *vkit.RNG, idx, batch, parallelDelete int) {
	s := c.newScenario(r, "concurrent", idx, batch, false, 1500)
	// scripts that can make a full batch fail entirely would hang the loop (reported by the stepped
	// lives under oracle 4); here only scripts under which every cycle terminates
	if s.script.Kind == "random" || s.script.Kind == "all" {
		s.script = c14script{Kind: "everyk", K: r.Range(2, 6), Rem: 0, Until: s.script.Until}
		s.p.Script, s.p.ScriptRaw = s.script.desc(), s.script
	}
	s.conc, s.parallelDelete = true, parallelDelete
	if parallelDelete > 0 {
		s.p.Mode = "concurrent+parallel-delete"
	}
	s.start = s.p.Tail0
	svc, err := pruner.NewService(s, s.window, s.hs, s.ds, s.bt, pruner.WithPruneCycle(time.Duration(r.Range(200, 1500))*time.Microsecond))
	if err == nil {
		err = svc.Start(ctx)
	}
	if err != nil {
		c.run.Inconclusive("C14 concurrent: service start failed: " + err.Error())
		return
	}
	s.svc = svc
	s.note("start(concurrent): head=%d tail=%d", s.p.Head0, s.p.Tail0)
	stopped := false
	stop := func() bool {
		if stopped {
			return true
		}
		stopped = true
		sctx, cancel := context.WithTimeout(ctx, time.Minute)
		defer cancel()
		if err := svc.Stop(sctx); err != nil {
			c.run.Inconclusive("C14 concurrent: Stop failed: " + err.Error())
			return false
		}
		return true
	}
	defer stop()

	var syncer sync.WaitGroup
	steps := r.Range(8, 25)
	for i := 0; i < steps; i++ {
		head, tail := s.hs.bounds()
		to := head + uint64(r.Range(1, max(1, s.p.N/6)))
		s.hs.advance(to)
		nh, _ := s.hs.bounds()
		s.note("head %d -> %d", head, nh)
		c.run.Count("head_advances", 1)
		if r.Chance(1, 2) {
			et := s.exactTail()
			if et > tail {
				if r.Bool() {
					et = tail + uint64(r.Range(1, int(et-tail)))
				}
				syncer.Wait() // one tail move at a time, like the syncer
				syncer.Add(1)
				c.run.Count("conc/tail_advances_concurrent_with_cycles", 1)
				go func(to uint64) {
					defer syncer.Done()
					s.deleteTo(ctx, to)
				}(et)
			}
		}
		if !s.waitCycles(int64(r.Range(1, 3))) {
			c.run.Inconclusive(fmt.Sprintf("C14 concurrent: ticker loop made no progress within the watchdog (scenario %d)", idx))
			syncer.Wait()
			return
		}
		s.report(ctx, "concurrent step", s.reported)
	}
	syncer.Wait()
	// the world stops changing; the failure script ends; allow the bounded number of cycles
	if s.script.transient() {
		s.mu.Lock()
		s.script.off = true
		s.mu.Unlock()
		s.note("failure script ended")
	}
	head, _ := s.hs.bounds()
	cutoff := s.ch.time(head).Add(-s.window)
	todo := 0
	s.mu.Lock()
	for h := s.start + 1; h <= head && !s.ch.time(h).After(cutoff); h++ {
		if s.succ[h] == 0 {
			todo++
		}
	}
	s.mu.Unlock()
	k := (todo+batch-1)/batch + 2
	// k+1 further cycle starts => at least k complete cycles ran after the last change
	if !s.waitCycles(int64(k + 1)) {
		c.run.Inconclusive(fmt.Sprintf("C14 concurrent: %d cycles did not start within the watchdog (scenario %d)", k+1, idx))
		return
	}
	s.report(ctx, "concurrent settle", s.reported)
	stopped = true // judge stops the service itself
	s.judge(ctx, k, k)
	c.run.Count("conc/scenarios_settled", 1)
	c.run.Count("cycles_started_by_ticker", int(s.hs.tailCalls.Load()))
	c.run.Distinct(fmt.Sprintf("%d|concurrent|%d|%s|%s|%s|%s|%d", c.seed, idx, s.p.Profile, s.p.BlockTime, s.p.WindowCls, s.p.Script, batch))
}
